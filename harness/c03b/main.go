// Harness for C03, part B (E4): the real process - controler.Start();
// controler.WatchSignals() as the CLI does - receives SIGTERM at an enumerated
// stop moment x configuration; the parent judges exit status, stderr and the
// WARC directory the child leaves.
package main

import (
	"encoding/json"
	"fmt"
	"os"
	"os/exec"
	"path/filepath"
	"sort"
	"strings"
	"syscall"
	"time"

	"github.com/internetarchive/Zeno/internal/verif/lib/e2e"
	"github.com/internetarchive/Zeno/internal/verif/lib/e2e/warcread"
	"github.com/internetarchive/Zeno/internal/verif/vrt/hkit"
)

const propID = "C03"

// ---------------------------------------------------------------- configuration matrix

type confDim struct {
	Proxy     bool `json:"proxy"`
	Async     bool `json:"async"`
	Limiter   bool `json:"limiter"`
	Workers   int  `json:"workers"`
	Pool      int  `json:"pool"`
	Seencheck bool `json:"seencheck"`
}

func (d confDim) name() string {
	return fmt.Sprintf("proxy=%v async=%v limiter=%v w%d pool%d seencheck=%v", d.Proxy, d.Async, d.Limiter, d.Workers, d.Pool, d.Seencheck)
}

func dimOf(row []int) confDim {
	return confDim{Proxy: row[0] == 1, Async: row[1] == 1, Limiter: row[2] == 0, Workers: row[3] + 1, Pool: row[4] + 1, Seencheck: row[5] == 0}
}

func fullMatrix() []confDim {
	var out []confDim
	for i := 0; i < 64; i++ {
		out = append(out, dimOf([]int{i >> 5 & 1, i >> 4 & 1, i >> 3 & 1, i >> 2 & 1, i >> 1 & 1, i & 1}))
	}
	return out
}

func coveringMatrix(t int) []confDim {
	var out []confDim
	for _, r := range e2e.Covering([]int{2, 2, 2, 2, 2, 2}, t) {
		out = append(out, dimOf(r))
	}
	return out
}

// ---------------------------------------------------------------- stop moments

type moment = e2e.Moment

var moments = e2e.StopMoments

func momentByName(n string) *moment { return e2e.MomentByName(n) }

// ---------------------------------------------------------------- cases

type caseSpec struct {
	Conf   confDim `json:"conf"`
	Moment string  `json:"moment"`
	Occ    int     `json:"occurrence"`
}

func (c caseSpec) name() string { return fmt.Sprintf("[%s] #%d %s", c.Conf.name(), c.Occ, c.Moment) }

func applicable(m *moment, d confDim) bool {
	switch m.Needs {
	case "seencheck":
		return d.Seencheck
	case "sync":
		return !d.Async
	}
	return true
}

const (
	stallMoment    = e2e.StallMoment
	startupMoment  = e2e.StartupMoment
	startupMoment2 = e2e.StartupMoment2
)

func cases(tier string) []caseSpec {
	var out []caseSpec
	base := confDim{Limiter: true, Workers: 1, Pool: 1, Seencheck: true}
	if tier != "thorough" {
		for _, d := range coveringMatrix(3) {
			for i := range moments {
				if m := &moments[i]; m.Quick && applicable(m, d) {
					out = append(out, caseSpec{d, m.Name, 1})
				}
			}
		}
		out = append(out, caseSpec{base, startupMoment, 1}, caseSpec{base, startupMoment2, 1})
		return out
	}
	for _, d := range fullMatrix() {
		for i := range moments {
			m := &moments[i]
			if m.Name == stallMoment || m.Name == startupMoment || m.Name == startupMoment2 || !applicable(m, d) {
				continue
			}
			out = append(out, caseSpec{d, m.Name, 1})
		}
	}
	for _, d := range coveringMatrix(2) {
		for i := range moments {
			m := &moments[i]
			if m.Match == nil || m.Early || !applicable(m, d) {
				continue
			}
			out = append(out, caseSpec{d, m.Name, 2})
		}
	}
	out = append(out, caseSpec{base, startupMoment, 1}, caseSpec{base, startupMoment2, 1})
	for _, d := range []confDim{base, {Proxy: true, Async: true, Limiter: false, Workers: 2, Pool: 2, Seencheck: false}} {
		out = append(out, caseSpec{d, stallMoment, 1})
	}
	return out
}

// ---------------------------------------------------------------- one case

type verdict struct {
	Case       string   `json:"case"`
	Fired      bool     `json:"fired"`    // the stop was requested at the enumerated moment
	Fallback   bool     `json:"fallback"` // the moment did not occur in this run: SIGTERM after the drain instead
	Exit       int      `json:"exit"`
	Signal     string   `json:"signal,omitempty"`
	Hang       bool     `json:"hang,omitempty"`
	WallS      float64  `json:"wall_s"`
	Requests   int      `json:"requests"`
	Files      int      `json:"files"`
	Records    int      `json:"records"`
	Sig        string   `json:"sig,omitempty"`
	Detail     string   `json:"detail,omitempty"`
	EngineNote string   `json:"engine_note,omitempty"`
	Events     []string `json:"events,omitempty"`
}

func png(tag string, n int) []byte {
	b := append([]byte("\x89PNG\r\n\x1a\n\x00\x00\x00\rIHDR"), tag...)
	for len(b) < n {
		b = append(b, byte(len(b)*7), byte(len(b)>>3))
	}
	return b[:n]
}

func site(o *e2e.Origin, hold *e2e.Hold, how string) (seeds []string, lqRows []e2e.LQRow, expectFinished int) {
	html := [][2]string{{"Content-Type", "text/html; charset=utf-8"}}
	img := [][2]string{{"Content-Type", "image/png"}}
	o.Handle("/p1", e2e.Resp{Status: 200, Header: html, Entity: e2e.HTMLPage("p1", []string{"/a1.png", "/a2.png"}, []string{"/out1"})})
	a1 := e2e.Resp{Status: 200, Header: img, Entity: png("a1", 5000), Chunked: true}
	switch {
	case hold == nil:
		o.Handle("/a1.png", a1)
	case how == "reset":
		// first attempt: held before the status line, then reset; the retry gets the whole response
		held := a1
		held.Hold, held.HoldAt, held.AfterHold = hold, -1, "reset"
		o.Handle("/a1.png", held, a1)
	case how == "cut":
		a1.Chunked = false
		held := a1
		held.Hold, held.HoldAt, held.AfterHold = hold, 2500, "close"
		o.Handle("/a1.png", held, a1)
	case how == "discard":
		busy := e2e.Resp{Status: 429, Header: [][2]string{{"Content-Type", "text/plain"}, {"Retry-After", "1"}}, Entity: []byte("slow down\n")}
		held := busy
		held.Hold, held.HoldAt = hold, -1
		o.Handle("/a1.png", held, busy)
	default: // release, stall
		a1.Hold, a1.HoldAt = hold, 1500
		o.Handle("/a1.png", a1)
	}
	o.Handle("/a2.png", e2e.Resp{Status: 302, Header: [][2]string{{"Location", "/a3.png"}}, Entity: []byte("moved")})
	o.Handle("/a3.png", e2e.Resp{Status: 200, Header: img, Entity: png("a3", 3000)})
	o.Handle("/out1", e2e.Resp{Status: 200, Header: html, Entity: e2e.HTMLPage("out1", nil, nil)})
	o.Handle("/q1", e2e.Resp{Status: 200, Header: html, Entity: e2e.HTMLPage("q1", []string{"/b1.png"}, nil)})
	o.Handle("/b1.png", e2e.Resp{Status: 200, Header: img, Entity: png("b1", 70000)})
	// Both seeds come from the pre-loaded local queue: controler.Start() then returns at once and
	// controler.WatchSignals() listens before any work is done. (With a command-line seed and one worker,
	// Start() blocks in reactor.ReceiveInsert while a queue seed holds the only token and the CLI does not
	// listen to signals during that time: that window is judged by the two start-up moments.)
	return nil, []e2e.LQRow{{ID: "row-p1", Value: o.URL("/p1")}, {ID: "row-q1", Value: o.URL("/q1")}}, 2
}

func waitEvent(dir, what string, d time.Duration) bool {
	end := time.Now().Add(d)
	for time.Now().Before(end) {
		if b, err := os.ReadFile(filepath.Join(dir, "events.log")); err == nil && strings.Contains(string(b), what) {
			return true
		}
		time.Sleep(20 * time.Millisecond)
	}
	return false
}

func runCase(cs caseSpec, profile bool) (v verdict) {
	v = verdict{Case: cs.name()}
	m := momentByName(cs.Moment)
	if m == nil {
		hkit.EngineError("unknown moment %q", cs.Moment)
	}
	o, err := e2e.NewOrigin("127.0.0.2")
	if err != nil {
		hkit.EngineError("origin: %v", err)
	}
	defer o.Close()
	var hold *e2e.Hold
	if m.Hold != "" {
		hold = e2e.NewHold()
		defer hold.Release()
	}
	seeds, rows, expect := site(o, hold, m.Hold)
	if m.Name == startupMoment2 {
		seeds, rows, expect = []string{o.URL("/p1"), o.URL("/q1")}, nil, 2
	}
	conf := e2e.Conf{Job: "c03b", Workers: cs.Conf.Workers, MaxConcurrentAssets: cs.Conf.Workers, MaxHops: 1, MaxRetry: 1, WARCPoolSize: cs.Conf.Pool,
		WARCWriteAsync: cs.Conf.Async, DisableRateLimit: !cs.Conf.Limiter, DisableSeencheck: !cs.Conf.Seencheck, InputSeeds: seeds}
	if cs.Conf.Proxy {
		sp, err := e2e.NewSocks5("127.0.0.3")
		if err != nil {
			hkit.EngineError("socks: %v", err)
		}
		defer sp.Close()
		conf.Proxy = sp.URL()
	}
	dir, err := e2e.Scratch("c03b")
	if err != nil {
		hkit.EngineError("%v", err)
	}
	defer func() {
		if d := os.Getenv("E2E_DEBUG_DIR"); d != "" && (v.Sig != "" || os.Getenv("E2E_DEBUG_ALL") != "") {
			os.MkdirAll(d, 0o755)
			exec.Command("cp", "-r", dir, d).Run()
		}
		os.RemoveAll(dir)
	}()
	if err := e2e.PreloadLQ(dir, conf.Job, rows); err != nil {
		hkit.EngineError("preload: %v", err)
	}
	spec := &e2e.ChildSpec{Dir: dir, Conf: conf, Mode: "signals", ExpectFinished: expect, FallbackMS: 1200, Profile: profile}
	stop := "sigterm"
	if m.Early {
		stop = "sigterm-now"
	}
	if m.PauseAt != nil {
		spec.Triggers = append(spec.Triggers, e2e.Trigger{Name: "pause", Match: m.PauseAt, N: 1, Do: []string{"pause"}})
	}
	if m.Match != nil {
		spec.Triggers = append(spec.Triggers, e2e.Trigger{Name: "stop", Match: m.Match, N: cs.Occ, Do: append(append([]string{}, m.Pre...), stop)})
	}
	if m.Name == e2e.DrainedMoment {
		spec.FallbackMS = 300
	}
	if m.Slow {
		spec.FallbackMS = 9000
	}
	hooks := e2e.RunHooks{}
	sentByParent := make(chan bool, 1)
	if hold != nil {
		hooks.Started = func(pid int, signal func(syscall.Signal)) {
			go func() {
				select {
				case <-hold.Reached():
				case <-time.After(e2e.Watchdog):
					sentByParent <- false
					return
				}
				waitEvent(dir, "signals-watched", 10*time.Second)
				signal(syscall.SIGTERM)
				sentByParent <- true
				if m.Hold != "stall" {
					waitEvent(dir, "stop-begun", 10*time.Second)
					time.Sleep(300 * time.Millisecond) // the stop sequence reaches archiver.Stop and waits there for the fetch
					hold.Release()
				}
			}()
		}
	}
	res, err := e2e.RunChild(spec, hooks)
	if err != nil {
		hkit.EngineError("child: %v", err)
	}
	v.Exit, v.Signal, v.Hang, v.WallS, v.Requests, v.Events = res.ExitCode, res.Signal, res.TimedOut, res.WallS, o.Requests(), res.Events
	switch {
	case hold != nil:
		select {
		case v.Fired = <-sentByParent:
		default:
		}
	case m.Match != nil:
		v.Fired = res.Fired("stop")
	default:
		v.Fired = res.HasEvent("fallback:")
	}
	v.Fallback = res.HasEvent("fallback:") && m.Match != nil
	judge(&v, cs, m, res, dir, conf.Job)
	if profile {
		hits := e2e.ReadHits(filepath.Join(dir, "hits.json"))
		agg := map[string]int64{}
		for k, n := range hits {
			agg[e2e.PointKey(k)] += n
		}
		for _, k := range hkit.SortedKeys(agg) {
			fmt.Printf("%6d %s\n", agg[k], k)
		}
	}
	return v
}

// judge applies the oracle of the property: exit status 0 within the watchdog,
// no panic text, no .open file left, every WARC file made of complete members/records only.
func judge(v *verdict, cs caseSpec, m *moment, res *e2e.ChildResult, dir, job string) {
	tailOf := func(s string, n int) string {
		if len(s) > n {
			return s[len(s)-n:]
		}
		return s
	}
	where := momentClass(m)
	if res.TimedOut {
		v.Sig = "stop-hangs:" + where
		v.Detail = fmt.Sprintf("the process was still running %v after it started (SIGTERM requested: %v); blocked goroutines: %s", e2e.Watchdog, v.Fired || v.Fallback, blockedSummary(res.Stderr))
		return
	}
	if res.Panic != "" {
		v.Sig = "stop-panics:" + normalise(res.Panic)
		v.Detail = fmt.Sprintf("panic text on stderr: %s ... %s", res.Panic, tailOf(res.Stderr, 1200))
		return
	}
	if res.ExitCode != 0 {
		if res.Signal == "terminated" && m.Early {
			v.Sig = "sigterm-before-signal-handler"
			v.Detail = "SIGTERM while controler.Start() is still running (" + map[bool]string{true: "it is blocked in reactor.ReceiveInsert for the second command-line seed until the first seed is finished", false: "the stages are being started, the WARC writer already has its file open"}[m.Name == startupMoment2] + "): controler.WatchSignals() has not called signal.Notify yet, the default action kills the process: exit by signal 15, " + leftovers(dir, job)
			return
		}
		if res.Signal == "killed" {
			v.EngineNote = "the child was killed by SIGKILL, which neither Zeno nor the harness sends in this check"
			return
		}
		if res.ExitCode == e2e.ExitEngine || res.ExitCode == 3 {
			v.EngineNote = fmt.Sprintf("the child gave up (exit %d): %v", res.ExitCode, res.Events)
			return
		}
		v.Sig = fmt.Sprintf("stop-exit-status:%d%s:%s", res.ExitCode, res.Signal, where)
		v.Detail = fmt.Sprintf("exit status %d signal %q; stderr: %s", res.ExitCode, res.Signal, tailOf(res.Stderr, 1200))
		return
	}
	wd := filepath.Join(dir, "jobs", job, "warcs")
	es, _ := os.ReadDir(wd)
	for _, e := range es {
		if strings.HasSuffix(e.Name(), ".open") {
			v.Sig = "open-file-left:" + where
			v.Detail = "after exit status 0: " + leftovers(dir, job)
			return
		}
	}
	for _, e := range es {
		f, err := warcread.ReadFile(filepath.Join(wd, e.Name()), -1, warcread.Options{})
		if err != nil {
			hkit.EngineError("%v", err)
		}
		v.Files++
		v.Records += len(f.Records)
		if f.Problem != nil {
			v.Sig = "incomplete-warc:" + f.Problem.Kind + ":" + where
			v.Detail = fmt.Sprintf("%s (%d bytes): %v; %d complete records before it", e.Name(), f.Size, f.Problem, len(f.Records))
			return
		}
	}
}

func leftovers(dir, job string) string {
	m := e2e.DirSizes(filepath.Join(dir, "jobs", job, "warcs"))
	var s []string
	for _, k := range hkit.SortedKeys(m) {
		s = append(s, fmt.Sprintf("%s (%d bytes)", k, m[k]))
	}
	return "files in warcs/: " + strings.Join(s, ", ")
}

func momentClass(m *moment) string {
	switch {
	case m.Hold == "stall":
		return "mid-fetch-stalled-server"
	case m.Hold == "reset" || m.Hold == "cut":
		return "mid-fetch-connection-fails"
	case m.Hold == "discard":
		return "mid-fetch-discarded-response"
	case m.Hold != "":
		return "mid-fetch"
	case len(m.Pre) > 0 || m.PauseAt != nil:
		return "paused"
	case m.Match == nil:
		return "drained"
	}
	return strings.TrimSuffix(filepath.Base(m.Match[0]), ".go") + ":" + strings.NewReplacer(" ", "-").Replace(m.Match[len(m.Match)-1])
}

func normalise(p string) string {
	p = strings.TrimPrefix(p, "panic: ")
	for _, cut := range []string{" [recovered]", "0x"} {
		if i := strings.Index(p, cut); i > 0 {
			p = p[:i]
		}
	}
	if len(p) > 80 {
		p = p[:80]
	}
	return strings.NewReplacer(" ", "-").Replace(strings.TrimSpace(p))
}

// blockedSummary lists the Zeno frames at the top of each goroutine of a SIGQUIT dump.
func blockedSummary(stderr string) string {
	seen := map[string]int{}
	for _, g := range strings.Split(stderr, "\n\ngoroutine ") {
		first := ""
		for _, l := range strings.Split(g, "\n") {
			if strings.Contains(l, "internetarchive/Zeno/internal/pkg/") && !strings.HasPrefix(l, "\t") {
				first = strings.TrimSpace(l)
				if i := strings.Index(first, "("); i > 0 {
					first = first[:i]
				}
				first = strings.TrimPrefix(first, "github.com/internetarchive/Zeno/internal/pkg/")
				break
			}
		}
		if first != "" {
			seen[first]++
		}
	}
	var out []string
	for _, k := range hkit.SortedKeys(seen) {
		out = append(out, fmt.Sprintf("%s x%d", k, seen[k]))
	}
	sort.Strings(out)
	if len(out) > 14 {
		out = out[:14]
	}
	return strings.Join(out, "; ")
}

// ---------------------------------------------------------------- main

func main() {
	if e2e.IsChild() {
		e2e.ChildMain()
	}
	a := hkit.ParseArgs()
	if a.Replay != "" {
		replay(a.Replay)
		return
	}
	if _, ok := a.Extra["profile"]; ok {
		v := runCase(caseSpec{confDim{Limiter: true, Workers: 1, Pool: 1, Seencheck: true}, e2e.DrainedMoment, 1}, true)
		fmt.Printf("%+v\n", v)
		return
	}
	cs := cases(a.Tier)
	if f, ok := a.Extra["only"]; ok {
		var keep []caseSpec
		for _, c := range cs {
			if strings.Contains(c.name(), f) {
				keep = append(keep, c)
			}
		}
		cs = keep
	}
	res := hkit.Jobs(a, len(cs), func(j int) any { return runCase(cs[j], false) })
	var (
		vs                           = make([]verdict, len(cs))
		fired, fallback, notes       int
		distinct                     = map[string]bool{}
		samples                      []any
		hangConfirmed, hangDismissed int
		reported                     = map[string]bool{}
		perMoment                    = map[string]int{}
	)
	for j, b := range res {
		if err := json.Unmarshal(b, &vs[j]); err != nil {
			hkit.EngineError("%v", err)
		}
	}
	for j := range vs {
		v := &vs[j]
		if v.EngineNote != "" {
			// not a verdict: run the case again, alone
			*v = runCase(cs[j], false)
			if v.EngineNote != "" {
				hkit.EngineError("%s: %s", v.Case, v.EngineNote)
			}
		}
		if v.Hang && !reported[v.Sig] {
			// a suspected hang is believed only when the case hangs twice more, alone
			again := 0
			for k := 0; k < 2; k++ {
				if w := runCase(cs[j], false); w.Hang {
					again++
				}
			}
			if again == 0 {
				hangDismissed++
				notes++
				fmt.Printf("note: %s: ran into the watchdog once under load, neither of 2 re-runs alone did; not believed\n", v.Case)
				*v = runCase(cs[j], false)
			} else {
				hangConfirmed++
				v.Detail = fmt.Sprintf("[hung in %d of 3 runs, %d of them alone] %s", again+1, again, v.Detail)
			}
		}
		if v.Fired {
			fired++
			distinct[cs[j].Moment+"|"+cs[j].Conf.name()+fmt.Sprint(cs[j].Occ)] = true
		}
		if v.Fallback {
			fallback++
		}
		perMoment[cs[j].Moment]++
		if len(samples) < 3 && v.Fired && v.Sig == "" && j%7 == 0 {
			samples = append(samples, map[string]any{"case": cs[j], "exit": v.Exit, "wall_s": v.WallS, "requests_served": v.Requests, "warc_files": v.Files, "records": v.Records, "events": v.Events})
		}
		if v.Sig != "" && !reported[v.Sig] {
			reported[v.Sig] = true
			hkit.Report(propID, v.Sig, map[string]any{"engine": "e2e", "harness": "c03b", "case": cs[j], "verdict": v}, fmt.Sprintf("%s: %s", v.Case, v.Detail))
		}
	}
	if len(samples) == 0 {
		samples = append(samples, map[string]any{"case": cs[0], "verdict": vs[0]})
	}
	hkit.Evidence(propID, a.Tier, "fault_enumeration", map[string]any{
		"evaluations": len(cs), "distinct_nontrivial": len(distinct),
		"rule":    "one evaluation = one child process (configuration x stop moment x occurrence) judged by the oracle; non-trivial = the SIGTERM was sent at the enumerated moment (not the fallback after the drain); distinct = distinct (configuration, moment, occurrence)",
		"samples": samples, "exhaustive": true, "moments": len(perMoment), "cases_per_moment": perMoment, "fallback_after_drain": fallback,
		"hangs_reproduced_alone": hangConfirmed, "hangs_not_reproduced": hangDismissed,
		"matrix":      map[string]any{"quick": "3-way covering array of {proxy, async, limiter, workers, pool, seencheck}", "thorough": "full product (64) for the first occurrence, pairwise covering array for the second"}[a.Tier],
		"explanation": "part B: the child runs controler.Start(); controler.WatchSignals() as cmd/get_url.go; a free-mode trigger sends SIGTERM to the process itself at the n-th hit of an instrumented progress point (or the parent sends it while the origin holds a response open); oracle: exit status 0 within 60 s, no panic text on stderr, no *.open file under jobs/<job>/warcs, every file there parses into complete gzip members and WARC records with an independent reader",
	}, []string{
		"goroutine schedules inside the child are whatever the OS gives (part A enumerates the stop protocol's interleavings)",
		"a trigger waits for controler.WatchSignals() to listen before it sends SIGTERM; the window before that has its own moment",
		"origin and SOCKS5 proxy live in the parent on loopback addresses 127.0.0.2 / 127.0.0.3",
	}, hkit.Violations())
	fmt.Printf("C03 %s (part B): %d cases, stop at the enumerated moment in %d, fallback after the drain in %d, %d hangs confirmed, %d not reproduced\n", a.Tier, len(cs), fired, fallback, hangConfirmed, hangDismissed)
	hkit.Exit()
}

func replay(path string) {
	b, err := os.ReadFile(path)
	if err != nil {
		hkit.EngineError("%v", err)
	}
	var r struct {
		Case    caseSpec `json:"case"`
		Verdict verdict  `json:"verdict"`
	}
	if err := json.Unmarshal(b, &r); err != nil {
		hkit.EngineError("%v", err)
	}
	v := runCase(r.Case, false)
	for _, e := range v.Events {
		fmt.Println("  ", e)
	}
	if v.EngineNote != "" {
		hkit.EngineError("%s", v.EngineNote)
	}
	if v.Sig == "" {
		fmt.Printf("replay: exit %d, no violation (stop at the moment: %v)\n", v.Exit, v.Fired)
		os.Exit(0)
	}
	fmt.Printf("replay: [sig=%s] %s\n", v.Sig, v.Detail)
	fmt.Printf("VIOLATION property=%s replay=%s\n", propID, path)
	os.Exit(1)
}
