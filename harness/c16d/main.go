// Harness for C16, part D: the footprint of the real crawler process. Parts A-C run the pipeline over a fake
// transport and a fake WARC writer; here the real binary path (controler.Start: real WARC-writing clients, direct or
// through a SOCKS5 proxy, records in memory or on disk, synchronous or asynchronous writing) crawls N seeds and, in
// a second process, 4N seeds of the same mix of successes and failures; when the work is done and the process has
// settled, goroutines, open descriptors and temporary files are counted. "The same after N seeds as after 4N seeds."
package main

import (
	"encoding/json"
	"fmt"
	"os"
	"regexp"
	"strconv"
	"strings"

	"github.com/internetarchive/Zeno/internal/pkg/archiver"
	"github.com/internetarchive/Zeno/internal/pkg/reactor"
	"github.com/internetarchive/Zeno/internal/pkg/source/lq"
	"github.com/internetarchive/Zeno/internal/verif/lib/e2e"
	"github.com/internetarchive/Zeno/internal/verif/vrt/hkit"
)

const propID = "C16"

type caseSpec struct {
	Name   string `json:"name"`
	Proxy  bool   `json:"proxy"`
	OnDisk bool   `json:"warc_on_disk"`
	Async  bool   `json:"async_warc_write"`
	N      int    `json:"n"`
}

type footprint struct {
	Seeds      int  `json:"seeds"`
	Goroutines int  `json:"goroutines"`
	FDs        int  `json:"fds"`
	TempFiles  int  `json:"temp_files"`
	Settled    bool `json:"settled"`
	Requests   int  `json:"requests"`
}

type verdict struct {
	Case   caseSpec    `json:"case"`
	Runs   []footprint `json:"runs"`
	Reason string      `json:"violation,omitempty"`
	Sig    string      `json:"sig,omitempty"`
}

func cases(tier string) []caseSpec {
	var out []caseSpec
	n := 3
	if tier == "thorough" {
		n = 6
	}
	for _, proxy := range []bool{false, true} {
		for _, disk := range []bool{false, true} {
			for _, async := range []bool{false, true} {
				out = append(out, caseSpec{Name: fmt.Sprintf("proxy=%v warc-on-disk=%v async-warc-write=%v", proxy, disk, async), Proxy: proxy, OnDisk: disk, Async: async, N: n})
			}
		}
	}
	return out
}

var fpRE = regexp.MustCompile(`footprint goroutines=(\d+) fds=(\d+) tempfiles=(\d+) settled=(\w+)`)

// crawl runs one child over `seeds` seeds: every seed is a page with an image, an asset that is always answered 429
// (discarded by the default policy and retried), one answered 404, one answered 500 (retried), one behind a
// redirection, and one whose body is cut by the server after the header.
func crawl(c caseSpec, seeds int) (footprint, string) {
	fp := footprint{Seeds: seeds}
	o, err := e2e.NewOrigin("127.0.0.2")
	if err != nil {
		hkit.EngineError("origin: %v", err)
	}
	defer o.Close()
	png := append([]byte("\x89PNG\r\n\x1a\n"), make([]byte, 3000)...)
	var urls []string
	for i := 0; i < seeds; i++ {
		p := fmt.Sprintf("/s%d", i)
		assets := []string{p + "/ok.png", p + "/limited", p + "/gone", p + "/err", p + "/moved", p + "/cut.png"}
		o.Handle(p, e2e.Resp{Status: 200, Header: [][2]string{{"Content-Type", "text/html; charset=utf-8"}}, Entity: e2e.HTMLPage(p, assets, nil)})
		o.Handle(p+"/ok.png", e2e.Resp{Status: 200, Header: [][2]string{{"Content-Type", "image/png"}}, Entity: append(append([]byte{}, png...), byte(i))})
		o.Handle(p+"/limited", e2e.Resp{Status: 429, Header: [][2]string{{"Content-Type", "text/plain"}}, Entity: []byte("slow down\n")})
		o.Handle(p+"/gone", e2e.Resp{Status: 404, Header: [][2]string{{"Content-Type", "text/plain"}}, Entity: []byte("gone\n")})
		o.Handle(p+"/err", e2e.Resp{Status: 500, Header: [][2]string{{"Content-Type", "text/plain"}}, Entity: []byte("oops\n")})
		o.Handle(p+"/moved", e2e.Resp{Status: 301, Header: [][2]string{{"Location", p + "/target.png"}}})
		o.Handle(p+"/target.png", e2e.Resp{Status: 200, Header: [][2]string{{"Content-Type", "image/png"}}, Entity: append(append([]byte{}, png...), 'T', byte(i))})
		h := e2e.NewHold()
		h.Release()
		o.Handle(p+"/cut.png", e2e.Resp{Status: 200, Header: [][2]string{{"Content-Type", "image/png"}}, Entity: png, Hold: h, HoldAt: 100, AfterHold: "close"})
		urls = append(urls, o.URL(p))
	}
	dir, err := e2e.Scratch("c16d")
	if err != nil {
		hkit.EngineError("scratch: %v", err)
	}
	defer os.RemoveAll(dir)
	conf := e2e.Conf{Job: "c16d", Workers: 2, MaxConcurrentAssets: 2, MaxRetry: 1, DisableRateLimit: true, WARCOnDisk: c.OnDisk, WARCWriteAsync: c.Async, InputSeeds: urls}
	if c.Proxy {
		sp, err := e2e.NewSocks5("127.0.0.3")
		if err != nil {
			hkit.EngineError("socks5: %v", err)
		}
		defer sp.Close()
		conf.Proxy = sp.URL()
	}
	spec := &e2e.ChildSpec{Dir: dir, Conf: conf, Mode: "drain", ExpectFinished: seeds, DeadlineS: 90, WatchdogS: 150, Footprint: true}
	res, err := e2e.RunChild(spec, e2e.RunHooks{})
	if err != nil {
		hkit.EngineError("child: %v", err)
	}
	fp.Requests = o.Requests()
	if res.Panic != "" || res.TimedOut || !res.HasEvent("work: drained") {
		return fp, fmt.Sprintf("the crawl of %d seeds did not run to its end: exit=%d timed_out=%v panic=%q events=%v", seeds, res.ExitCode, res.TimedOut, res.Panic, res.Events)
	}
	for _, e := range res.Events {
		if m := fpRE.FindStringSubmatch(e); m != nil {
			fp.Goroutines, _ = strconv.Atoi(m[1])
			fp.FDs, _ = strconv.Atoi(m[2])
			fp.TempFiles, _ = strconv.Atoi(m[3])
			fp.Settled = m[4] == "true"
			return fp, ""
		}
	}
	hkit.EngineError("no footprint event: %v", res.Events)
	return fp, ""
}

func runCase(c caseSpec) verdict {
	v := verdict{Case: c}
	for _, seeds := range []int{c.N, 4 * c.N} {
		fp, anomaly := crawl(c, seeds)
		v.Runs = append(v.Runs, fp)
		if anomaly != "" {
			v.Sig, v.Reason = "crawl-does-not-finish:"+c.Name, anomaly
			return v
		}
	}
	a, b := v.Runs[0], v.Runs[1]
	cfg := fmt.Sprintf("proxy=%v", c.Proxy)
	switch {
	case !a.Settled || !b.Settled:
		v.Sig, v.Reason = "never-settles:"+cfg, fmt.Sprintf("the goroutine count kept changing for 15 s after the work was done: %+v / %+v", a, b)
	case b.Goroutines != a.Goroutines:
		v.Sig, v.Reason = "goroutines-grow:"+cfg, fmt.Sprintf("%d goroutines after %d seeds, %d after %d seeds", a.Goroutines, a.Seeds, b.Goroutines, b.Seeds)
	case b.FDs != a.FDs:
		v.Sig, v.Reason = "descriptors-grow:"+cfg, fmt.Sprintf("%d open descriptors after %d seeds, %d after %d seeds", a.FDs, a.Seeds, b.FDs, b.Seeds)
	case a.TempFiles != 0 || b.TempFiles != 0:
		v.Sig, v.Reason = "temp-files-left:"+cfg, fmt.Sprintf("%d temporary files after %d seeds, %d after %d seeds", a.TempFiles, a.Seeds, b.TempFiles, b.Seeds)
	}
	return v
}

func main() {
	e2e.QueueState = lq.VerifQueueState
	e2e.ReactorTracked = reactor.VerifTracked
	e2e.BeforeFootprint = archiver.VerifCloseIdleConnections
	if e2e.IsChild() {
		e2e.ChildMain()
	}
	a := hkit.ParseArgs()
	cs := cases(a.Tier)
	if a.Replay != "" {
		var r struct {
			Verdict verdict `json:"verdict"`
		}
		b, err := os.ReadFile(a.Replay)
		if err != nil {
			hkit.EngineError("%v", err)
		}
		if err := json.Unmarshal(b, &r); err != nil {
			hkit.EngineError("%v", err)
		}
		v := runCase(r.Verdict.Case)
		fmt.Printf("%+v\n", v.Runs)
		if v.Reason != "" {
			fmt.Printf("replay: %s\nVIOLATION property=%s replay=%s\n", v.Reason, propID, a.Replay)
			os.Exit(1)
		}
		fmt.Println("replay: no violation")
		return
	}
	if f, ok := a.Extra["only"]; ok {
		var keep []caseSpec
		for _, c := range cs {
			if strings.Contains(c.Name, f) {
				keep = append(keep, c)
			}
		}
		cs = keep
	}
	res := hkit.Jobs(a, len(cs), func(j int) any { return runCase(cs[j]) })
	seen := map[string]bool{}
	var sample []any
	runs, reqs := 0, 0
	for _, raw := range res {
		var v verdict
		if err := json.Unmarshal(raw, &v); err != nil {
			hkit.EngineError("%v", err)
		}
		runs += len(v.Runs)
		for _, r := range v.Runs {
			reqs += r.Requests
		}
		if len(sample) < 3 {
			sample = append(sample, v)
		}
		if v.Reason != "" && !seen[v.Sig] {
			seen[v.Sig] = true
			hkit.Report(propID, v.Sig, map[string]any{"engine": "e2e", "harness": "c16d", "verdict": v}, v.Case.Name+": "+v.Reason)
		}
	}
	hkit.Evidence(propID, a.Tier, "exploration", map[string]any{
		"evaluations": runs, "distinct_nontrivial": len(cs), "samples": sample, "exhaustive": true,
		"explanation": fmt.Sprintf("part D: %d configurations (proxy x warc-on-disk x async-warc-write) of the real crawler process (controler.Start with the real WARC-writing clients), each crawling N=%d and, in a second process, 4N seeds whose pages embed an image, a 429 (discarded and retried), a 404, a 500 (retried), a redirection and a body cut by the server; once the work is done, idle connections closed and the goroutine count still for 600 ms: goroutines, open descriptors and files in the WARC temp directory are compared between the two runs; %d requests served", len(cs), cs[0].N, reqs),
	}, []string{"part D: the footprint is read when the goroutine count has not changed for 600 ms after the last seed finished and idle keep-alive connections were closed; equality of the two counts is demanded, the absolute numbers are not judged"}, hkit.Violations())
	fmt.Printf("C16 %s (part D): %d configurations, %d crawls of the real process, %d requests served, %d failing signatures\n", a.Tier, len(cs), runs, reqs, len(seen))
	hkit.Exit()
}
