// Harness for C03, part A: the stop sequence of controler.stopPipeline placed
// before every step of a running pipeline, under the controlled scheduler.
// (Part B - real process, real WARC files - lives in e2e.go when present.)
package main

import (
	"encoding/json"
	"fmt"
	"os"
	"strings"
	"syscall"
	"time"

	"github.com/internetarchive/Zeno/internal/pkg/config"
	"github.com/internetarchive/Zeno/internal/pkg/controler/pause"
	"github.com/internetarchive/Zeno/internal/pkg/controler/watchers"
	"github.com/internetarchive/Zeno/internal/pkg/stats"
	"github.com/internetarchive/Zeno/internal/verif/lib/world"
	"github.com/internetarchive/Zeno/internal/verif/vrt/hkit"
	"github.com/internetarchive/Zeno/internal/verif/vrt/vsched"
	"github.com/internetarchive/Zeno/pkg/models"
)

// The same harness decides one clause of C17 when it is built as c17b ("the preprocessor, archiver and
// postprocessor worker gauges equal the number of live workers - zero after stop"): only the gauges are judged then.
var (
	propID      = "C03"
	harnessName = "c03"
	gaugeMode   = false
)

func init() {
	if os.Getenv("VERIF_PART") == "c17b" || os.Getenv("VERIF_HARNESS") == "c17b" {
		propID, harnessName, gaugeMode = "C17", "c17b", true
	}
}

const H = "http://s.example"

type scen struct {
	Opt    world.Options `json:"options"`
	Seeds  int           `json:"seeds"`
	Paused bool          `json:"paused"` // a controller pauses the pipeline and never resumes
	// DiskFull: the real disk watchdog runs, the disk is full from the start and stays full; the
	// stop request (controler.stopPipeline's order: watchdog first) comes after the watchdog paused
	DiskFull bool `json:"disk_full,omitempty"`
	// Broken: the first page also embeds resources whose transfer breaks after the headers (reset; a timeout
	// that every further read repeats): responses that are complete for the WARC writer and fail in ProcessBody
	Broken bool `json:"broken,omitempty"`
	// Anchors: the first page also has five anchors and --max-hops is 1: the postprocessor feeds the outlinks
	// downstream one by one, more of them than the finisher's input holds
	Anchors bool `json:"anchors,omitempty"`
	// PauseAny: the controller's pause is a thread that by default runs after the drain, like the stop request: one
	// deviation moves it to any step of the run (a worker inside the fetching of a page's assets, a fetch waiting
	// for its rate-limiter token, ...). The first page has three assets on its host (limiter: two tokens, one per second)
	PauseAny bool `json:"pause_any,omitempty"`
	P        int  `json:"p"`
}

func (s *scen) name() string {
	o := s.Opt
	if s.Anchors {
		return fmt.Sprintf("seeds=%d w%d a%d paused=%v page-with-anchors max-hops=1", s.Seeds, o.Workers, o.MaxConcurrentAssets, s.Paused)
	}
	if s.PauseAny {
		return fmt.Sprintf("seeds=%d w%d a%d limiter=%v three assets, paused at any step", s.Seeds, o.Workers, o.MaxConcurrentAssets, o.RateLimit)
	}
	if o.SlowSourceMs > 0 {
		return fmt.Sprintf("seeds=%d w%d a%d slow-source=%dms", s.Seeds, o.Workers, o.MaxConcurrentAssets, o.SlowSourceMs)
	}
	return fmt.Sprintf("seeds=%d w%d a%d limiter=%v proxy=%v async=%v seencheck=%s paused=%v%s", s.Seeds, o.Workers, o.MaxConcurrentAssets, o.RateLimit, o.Proxy, o.AsyncWARC, seenName(o), s.Paused, map[bool]string{true: " disk-full", false: ""}[s.DiskFull]) + map[bool]string{true: " broken-bodies", false: ""}[s.Broken] + map[bool]string{true: " slow-warc-writers", false: ""}[o.WriteMs > 0]
}

func seenName(o world.Options) string {
	switch {
	case o.NoSeencheck:
		return "off"
	case o.LocalSeencheck:
		return "local"
	}
	return "hq"
}

type obs struct {
	mu            hkit.Mutex
	stopReturned  bool
	stopRequested bool // plain word: only read and written between scheduling points
	stopStep      int
	gaugesAtStop  [3]uint64
	inserted      int       // seeds the reactor accepted
	totals0       [2]uint64 // URLs crawled / seeds finished totals when the execution began (the stats singleton lives on)
	codes0        map[string]uint64
}

func site() world.SiteDef { return siteWith(false, false) }

func siteWith(broken, anchors bool) world.SiteDef {
	d := siteBase()
	if anchors {
		d.Nodes[0].Links = []string{"/l1", "/l2", "/l3", "/l4", "/l5"}
	}
	if broken {
		d.Nodes[0].Refs = append(d.Nodes[0].Refs, H+"/cut.png", H+"/stall.png")
		d.Nodes = append(d.Nodes, world.Node{URL: H + "/cut.png", Kind: "cut"}, world.Node{URL: H + "/stall.png", Kind: "stall"})
	}
	return d
}

func siteBase() world.SiteDef {
	return world.SiteDef{Name: "two pages", Seeds: []string{H + "/p1", H + "/p2", H + "/q1", H + "/q2"}, Nodes: []world.Node{
		{URL: H + "/p1", Kind: "html", Refs: []string{H + "/a.png", H + "/flaky.png"}}, {URL: H + "/a.png", Kind: "bin"},
		{URL: H + "/flaky.png", Kind: "flaky", FailN: 1},
		{URL: H + "/p2", Kind: "redirect", Location: H + "/p3"}, {URL: H + "/p3", Kind: "html", Refs: []string{H + "/b.png", H + "/a.png"}}, {URL: H + "/b.png", Kind: "bin"},
	}}
}

func scenario(s *scen) *vsched.Scenario {
	var w *world.World
	var o *obs
	sc := &vsched.Scenario{Name: s.name()}
	d := siteWith(s.Broken, s.Anchors)
	if s.PauseAny {
		d.Nodes[0].Refs = append(d.Nodes[0].Refs, H+"/c.png")
		d.Nodes = append(d.Nodes, world.Node{URL: H + "/c.png", Kind: "bin"})
	}
	d.Seeds = d.Seeds[:s.Seeds]
	sc.Setup = func(x *vsched.Exec) {
		opt := s.Opt
		opt.Tmp = os.Getenv("VERIF_TMP")
		opt.MaxRetry, opt.MaxRedirect = 1, 2
		if s.Anchors {
			opt.MaxHops = 1
		}
		w = world.New(opt, d.Build())
		o = &obs{}
		o.totals0[0], o.totals0[1] = stats.VerifTotals()
		o.codes0 = stats.VerifCodeTotals()
		x.Data = o
		if s.DiskFull {
			watchers.VerifC14Reset()
			config.Get().MinSpaceRequired = 1 // GiB
			vsched.StatfsAnswer = func(path string, st *syscall.Statfs_t) error {
				st.Bsize, st.Blocks, st.Bavail = 4096, 1<<30, 10
				return nil
			}
		}
	}
	sc.Body = func() {
		w.Start()
		need := 4 * s.Opt.Workers
		vsched.Block("h:wait until every stage worker has subscribed", nil, func() bool { return pause.VerifSubscribers() >= need })
		if s.Paused && !s.PauseAny {
			go func() { pause.Pause("verif: paused for good") }()
		}
		w.Feeders.Add(1)
		go func() { // feeder: the source's consumer
			defer w.Feeders.Done()
			for i, u := range d.Seeds {
				if err := w.Insert(fmt.Sprintf("seed%d", i), u); err != nil {
					return // frozen or stopping reactor: the source gives up
				}
				o.mu.Lock()
				o.inserted++
				o.mu.Unlock()
			}
		}()
		if s.DiskFull {
			os.MkdirAll(w.JobDir(), 0o755)
			go watchers.WatchDiskSpace(w.JobDir(), 5*time.Second)
		}
		if s.PauseAny {
			go func() {
				vsched.Point("h:pause requested", nil)
				if !o.stopRequested {
					pause.Pause("verif: paused for good")
				}
			}()
		}
		go func() { // stop request: by default it comes after the drain, every deviation moves it earlier
			if s.DiskFull {
				time.Sleep(7 * time.Second) // the watchdog's first tick (5 s) has paused the pipeline by then
			}
			vsched.Point("h:stop requested", nil)
			o.stopRequested = true
			if a, b, c := stats.VerifRoutines(); true {
				// every stage worker is alive at this moment (they all subscribed before the feeder started and none
				// exits before a stop): each gauge must read the worker count, paused or not
				o.mu.Lock()
				o.gaugesAtStop = [3]uint64{a, b, c}
				o.mu.Unlock()
			}
			if s.DiskFull {
				watchers.StopDiskWatcher()
			}
			w.Stop()
			o.mu.Lock()
			o.stopReturned = true
			o.stopStep = vsched.Cur().StepIndex()
			o.mu.Unlock()
		}()
	}
	sc.Idle = world.IsIdlePoint
	sc.Horizon = 30 * time.Minute
	sc.DelayBounding = true
	sc.OKEnds = []string{vsched.EndQuiescent, vsched.EndDeadlock, vsched.EndDone, vsched.EndHorizon}
	sc.AtEnd = func(x *vsched.Exec) error {
		if gaugeMode {
			n := uint64(s.Opt.Workers)
			if g := o.gaugesAtStop; g != [3]uint64{n, n, n} {
				return fmt.Errorf("gauges-differ-from-live-workers: %d workers per stage are alive when the stop is requested (paused=%v), the gauges read preprocessor=%d archiver=%d postprocessor=%d", n, s.Paused || s.DiskFull, g[0], g[1], g[2])
			}
			if !o.stopReturned || x.LiveThreads() != 0 {
				return nil // a stop that does not complete is C03's business
			}
			if a, b, c := stats.VerifRoutines(); a != 0 || b != 0 || c != 0 {
				return fmt.Errorf("gauges-not-zero: worker gauges after stop: preprocessor=%d archiver=%d postprocessor=%d", a, b, c)
			}
			// totals equal the number of events that happened: a seed that left the reactor was finished (the only way
			// out of its state table), a request that reached the transport was a URL crawled
			urls, seeds := stats.VerifTotals()
			if left := o.inserted - w.TrackedAtStop; int(seeds-o.totals0[1]) != left {
				return fmt.Errorf("seeds-finished-total-differs: %d seeds were accepted by the reactor and %d are still tracked after the stop, so %d were finished; the total counted %d", o.inserted, w.TrackedAtStop, left, seeds-o.totals0[1])
			}
			// "URLs crawled" counts items fetched, not requests (a retried URL counts once); in this site every URL belongs to one item
			distinct := map[string]bool{}
			for _, f := range w.Log {
				distinct[f.URL] = true
			}
			if int(urls-o.totals0[0]) != len(distinct) {
				return fmt.Errorf("urls-crawled-total-differs: %d URLs were requested, the total counted %d", len(distinct), urls-o.totals0[0])
			}
			// per-status-code counts: one per URL whose (last) response was taken in whole (the stop
			// sequence waits for every fetch that has begun); a body that breaks is not counted
			if !s.Broken {
				want := map[string]uint64{}
				last := map[string]int{}
				for _, f := range w.Log {
					last[f.URL] = f.Status // an answer that was retried is not counted; no URL of these sites fails for good
				}
				for _, st := range last {
					if st > 0 {
						want[fmt.Sprint(st)]++
					}
				}
				got := stats.VerifCodeTotals()
				for c, n := range got {
					if d := n - o.codes0[c]; d != want[c] {
						return fmt.Errorf("status-code-count-differs: %d responses with status %s were received, the per-code total counted %d (async-warc=%v)", want[c], c, d, s.Opt.AsyncWARC)
					}
				}
				for c, n := range want {
					if _, ok := got[c]; !ok && n > 0 {
						return fmt.Errorf("status-code-count-differs: %d responses with status %s were received, the per-code total has no entry for it (async-warc=%v)", n, c, s.Opt.AsyncWARC)
					}
				}
			}
			return nil
		}
		if !o.stopReturned {
			return fmt.Errorf("stop-never-returns: the stop sequence did not return (paused=%v, end=%s); blocked: %s", pause.IsPaused(), x.End, strings.Join(x.Blocked(), "; "))
		}
		if n := x.LiveThreads(); n != 0 {
			return fmt.Errorf("threads-left: stop returned but %d threads are still alive: %s", n, strings.Join(x.Parked(), "; "))
		}
		// once the stop sequence has returned the crawler does nothing more: no request is sent, none is still open
		// (the WARC output is closed by then: a later exchange has nowhere to be recorded)
		for _, f := range w.Log {
			if f.Start > o.stopStep {
				return fmt.Errorf("request-after-stop: %s (attempt %d) was requested at step %d, after the stop sequence had returned (step %d)", f.URL, f.Attempt, f.Start, o.stopStep)
			}
			if f.End > o.stopStep || f.End < 0 {
				return fmt.Errorf("exchange-open-after-stop: the exchange of %s (attempt %d) was still open when the stop sequence returned (step %d)", f.URL, f.Attempt, o.stopStep)
			}
		}
		// a seed reported finished around the stop must still have its whole tree done (it is deleted
		// from the queue: anything pending would be lost for good)
		for _, m := range w.Finished {
			var pending []string
			m.Item.Traverse(func(n *models.Item) {
				switch n.GetStatus() {
				case models.ItemFresh, models.ItemPreProcessed, models.ItemArchived:
					pending = append(pending, n.GetURL().Raw+"="+n.GetStatus().String())
				}
			})
			if len(pending) > 0 {
				return fmt.Errorf("finished-with-pending-work: %s was reported finished during the stop while %v still await work", m.ID, pending)
			}
		}
		if a, b, c := stats.VerifRoutines(); a != 0 || b != 0 || c != 0 {
			return fmt.Errorf("gauges-not-zero: worker gauges after stop: preprocessor=%d archiver=%d postprocessor=%d", a, b, c)
		}
		return nil
	}
	sc.Outcome = func(x *vsched.Exec) string {
		return fmt.Sprintf("finished=%d fetches=%d", w.FinishedCount(), len(w.Log))
	}
	sc.Cleanup = func(x *vsched.Exec) { w.Cleanup() }
	sc.Signature = sig
	sc.KnownSig = func(sg string) bool { return hkit.IsListed(propID, sg) }
	return sc
}

func sig(v *vsched.Violation) string {
	m := v.Message
	if v.Kind == "crash" {
		return vsched.DefaultSignature(v)
	}
	if i := strings.IndexByte(m, ':'); i > 0 {
		s := m[:i]
		if strings.Contains(m, "paused=true") {
			s += ":paused"
		}
		return s
	}
	return vsched.DefaultSignature(v)
}

func scenarios(tier string) []scen {
	var out []scen
	P := 1
	if tier == "thorough" {
		P = 2
	}
	for _, seeds := range []int{0, 1, 2} {
		for _, workers := range []int{1, 2} {
			for _, limiter := range []bool{false, true} {
				for _, paused := range []bool{false, true} {
					if seeds == 0 && (limiter || workers == 2) {
						continue
					}
					out = append(out, scen{Opt: world.Options{Workers: workers, MaxConcurrentAssets: workers, RateLimit: limiter}, Seeds: seeds, Paused: paused, P: P})
				}
			}
		}
	}
	// paused by the real disk watchdog on a disk that stays full
	out = append(out, scen{Opt: world.Options{Workers: 1, MaxConcurrentAssets: 1}, Seeds: 1, DiskFull: true, P: P})
	// responses that the writer records and whose body then fails in the archiver
	out = append(out, scen{Opt: world.Options{Workers: 1, MaxConcurrentAssets: 1}, Seeds: 1, Broken: true, P: P},
		scen{Opt: world.Options{Workers: 1, MaxConcurrentAssets: 2}, Seeds: 1, Broken: true, P: P})
	// a page whose outlinks are being fed downstream when the pause and then the stop come
	for _, paused := range []bool{false, true} {
		out = append(out, scen{Opt: world.Options{Workers: 1, MaxConcurrentAssets: 1}, Seeds: 1, Paused: paused, Anchors: true, P: P + 1})
	}
	// the pause comes while a worker is inside the fetching of a page and its assets
	for _, limiter := range []bool{false, true} {
		out = append(out, scen{Opt: world.Options{Workers: 1, MaxConcurrentAssets: 2, RateLimit: limiter}, Seeds: 1, Paused: true, PauseAny: true, P: P + 1})
	}
	// a source that is slow to take finished seeds: the finisher blocks on its hand-over while the stop comes
	out = append(out, scen{Opt: world.Options{Workers: 1, MaxConcurrentAssets: 1, SlowSourceMs: 5000}, Seeds: 4, P: P})
	// the other configuration dimensions on the one-worker, one-seed instance
	for _, o := range []world.Options{
		{Workers: 1, MaxConcurrentAssets: 1, Proxy: true},
		{Workers: 1, MaxConcurrentAssets: 1, AsyncWARC: true},
		{Workers: 1, MaxConcurrentAssets: 1, Proxy: true, AsyncWARC: true, RateLimit: true},
		{Workers: 1, MaxConcurrentAssets: 1, NoSeencheck: true},
		{Workers: 1, MaxConcurrentAssets: 1, LocalSeencheck: true},
		// asynchronous WARC writing with writers that are behind (2.5 s per record): the stop has to wait for the queue
		{Workers: 1, MaxConcurrentAssets: 1, AsyncWARC: true, WriteMs: 2500},
		{Workers: 1, MaxConcurrentAssets: 1, Proxy: true, AsyncWARC: true, WriteMs: 2500},
	} {
		p := P
		if o.LocalSeencheck {
			p = 0 // a LevelDB store per execution is slow: the canonical schedule plus select outcomes only
		}
		out = append(out, scen{Opt: o, Seeds: 1, P: p})
	}
	return out
}

type jobResult struct {
	Name string         `json:"name"`
	Rep  *vsched.Report `json:"rep"`
}

func main() {
	a := hkit.ParseArgs()
	ss := scenarios(a.Tier)
	if a.Replay != "" {
		replay(a.Replay)
		return
	}
	maxWall := 45 * time.Second
	if a.Tier == "thorough" {
		maxWall = 15 * time.Minute
	}
	if v, ok := a.Extra["only"]; ok {
		var f []scen
		for _, s := range ss {
			if strings.Contains(s.name(), v) {
				f = append(f, s)
			}
		}
		ss = f
	}
	if v, ok := a.Extra["p"]; ok {
		for i := range ss {
			fmt.Sscanf(v, "%d", &ss[i].P)
		}
	}
	res := hkit.Jobs(a, len(ss), func(j int) any {
		s := &ss[j]
		sc := scenario(s)
		if err := vsched.DeterminismCheck(sc); err != nil {
			hkit.EngineError("%v", err)
		}
		rep := vsched.Explore(sc, vsched.Bounds{P: s.P, MaxWall: maxWall})
		if len(rep.Sample) > 60 {
			rep.Sample = rep.Sample[:60]
		}
		return jobResult{s.name(), rep}
	})
	total := &vsched.Report{Exhaustive: true}
	seen := map[string]bool{}
	outcomes := map[string]bool{}
	var per []map[string]any
	for j, b := range res {
		var r jobResult
		if err := json.Unmarshal(b, &r); err != nil {
			hkit.EngineError("%v", err)
		}
		per = append(per, map[string]any{"scenario": r.Name, "p": ss[j].P, "executions": r.Rep.Executions, "states": r.Rep.States,
			"transitions": r.Rep.Transitions, "outcomes": len(r.Rep.Outcomes), "exhaustive": r.Rep.Exhaustive, "ends": r.Rep.Ends})
		for k := range r.Rep.Outcomes {
			outcomes[k] = true
		}
		for _, v := range r.Rep.Violations {
			if seen[v.Sig] {
				continue
			}
			seen[v.Sig] = true
			if err := vsched.Confirm(scenario(&ss[j]), &v); err != nil {
				hkit.EngineError("violation did not replay: %v", err)
			}
			hkit.Report(propID, v.Sig, map[string]any{"engine": "explore", "harness": harnessName, "scenario": ss[j], "violation": v},
				fmt.Sprintf("%s: %s: %s", r.Name, v.Kind, firstLine(v.Message)))
		}
		total.Merge(r.Rep)
	}
	hkit.Evidence(propID, a.Tier, "model_checking", map[string]any{
		"states": total.States, "transitions": total.Transitions, "traces_validated_against_impl": total.Executions,
		"samples": []any{total.Sample}, "exhaustive": total.Exhaustive, "scenarios": len(ss), "distinct_outcomes": len(outcomes),
		"per_scenario": per,
		"explanation":  map[bool]string{true: "part B of C17: the C03 part A harness judged for the worker gauges only - ", false: ""}[gaugeMode] + "part A: the real stop sequence (reactor.Freeze, the four stage Stops, seencheck close, source stop, reactor.Stop) as a thread that by default runs after the drain; every schedule with at most P deviations moves the stop request before any step of the run (idle, mid-fetch, between stages, while paused), all select outcomes; oracle: the stop sequence returns, every thread has exited, worker gauges are zero, no panic",
	}, []string{
		"fake transport and fake WARC client: closing/renaming of real WARC files is decided by part B (real process), not here",
		"source = harness sink + feeder thread (the lq/hq adapters are exercised in C04/C15)",
	}, hkit.Violations())
	fmt.Printf(propID+" %s (part "+map[bool]string{true: "B", false: "A"}[gaugeMode]+"): %d scenarios, %d executions, %d states, %d transitions, exhaustive=%v\n", a.Tier, len(ss), total.Executions, total.States, total.Transitions, total.Exhaustive)
	hkit.Exit()
}

func firstLine(s string) string {
	if i := strings.IndexByte(s, '\n'); i > 0 {
		s = s[:i]
	}
	if len(s) > 600 {
		s = s[:600]
	}
	return s
}

func replay(path string) {
	b, err := os.ReadFile(path)
	if err != nil {
		hkit.EngineError("%v", err)
	}
	var r struct {
		Scenario  scen             `json:"scenario"`
		Violation vsched.Violation `json:"violation"`
	}
	if err := json.Unmarshal(b, &r); err != nil {
		hkit.EngineError("%v", err)
	}
	v, x := vsched.Replay(scenario(&r.Scenario), r.Violation.Choices)
	for _, s := range x.Steps {
		fmt.Printf("  %-44s %-90s case=%d\n", s.Thread, s.Point, s.Case)
	}
	if v == nil {
		fmt.Println("replay: no violation")
		os.Exit(0)
	}
	fmt.Printf("replay: %s: %s\n", v.Kind, v.Message)
	fmt.Printf("VIOLATION property=%s replay=%s\n", propID, path)
	os.Exit(1)
}
