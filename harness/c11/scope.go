// Small-scope part of C11: EVERY tree of up to scopeM nodes, with every status
// assignment and every pattern of equal/different URLs, that has the shape the
// stages can hand to DedupeItems (invA) or to CompleteAndCheck (invB), is built
// on the real model and put through that one operation under the same oracle.
//
// The two shape invariants are not taken on trust: the search asserts them on
// every tree it actually reaches at those two call sites (any size; a reachable
// tree outside the invariant is an engine error, not a verdict), and the run
// reports how many of the enumerated trees the search reached as well - if the
// two numbers are equal the invariant is exact for this size.
package main

import "fmt"

const scopeM = 5

type shape struct {
	kids [][]int
	lvl  []int
	maxd int
	nf   int // fresh nodes
}

func analyse(s snap) shape {
	t := shape{kids: make([][]int, len(s)), lvl: make([]int, len(s))}
	for i, n := range s {
		if n.P >= 0 {
			t.kids[n.P] = append(t.kids[n.P], i)
			t.lvl[i] = t.lvl[n.P] + 1
		}
		if t.lvl[i] > t.maxd {
			t.maxd = t.lvl[i]
		}
		if n.S == stFresh {
			t.nf++
		}
	}
	return t
}

func gotX(st int) bool { return st == stGotChildren || st == stGotRedirected }

// older: rules for a node above the level the current round works on.
//   - nothing above that level is still waiting (no Fresh/PreProcessed/Archived),
//   - Failed and Seen nodes never got children,
//   - a Completed node has only finished children, none of them on the working level,
//   - a node that got children / a redirect and is not Completed yet leads down
//     to the working level: it has a child that is on that level (`onLevel`) or
//     that is itself such a node; a redirect has exactly one target.
func older(s snap, t shape, i int, onLevel func(c int) bool, seedAsGot bool) bool {
	st := s[i].S
	if i == 0 && seedAsGot {
		st = stGotChildren
	}
	switch st {
	case stFailed, stSeen:
		return len(t.kids[i]) == 0
	case stCompleted:
		for _, c := range t.kids[i] {
			if !noWork(s[c].S) || onLevel(c) { // the working level was Fresh this round: its parents were not Completed
				return false
			}
		}
		return true
	case stGotChildren, stGotRedirected:
		if st == stGotRedirected && len(t.kids[i]) != 1 {
			return false
		}
		for _, c := range t.kids[i] {
			if onLevel(c) || gotX(s[c].S) {
				return true
			}
		}
	}
	return false
}

// invA: the tree as DedupeItems sees it inside preprocess() - the fresh seed
// alone, or: the deepest level D holds the new Fresh leaves that survived the
// filters (possibly none, then D is one below the deepest level), their parents
// on level D-1 got children / a redirect (0..n resp. 0..1 of them left), the
// levels above follow older(), and - because DedupeItems ran on every earlier
// round - only a Fresh node can share its URL with another non-seed node.
func invA(s snap) bool {
	if len(s) == 1 && s[0].S == stFresh {
		return true
	}
	t := analyse(s)
	if !gotX(s[0].S) {
		return false
	}
	D := t.maxd + 1
	if t.nf > 0 {
		D = t.maxd
	}
	url := map[string]bool{}
	for i, n := range s {
		l := t.lvl[i]
		if n.S == stFresh {
			if l != D || len(t.kids[i]) > 0 {
				return false
			}
			continue
		}
		if l >= D {
			return false
		}
		if i > 0 {
			if url[n.U] {
				return false
			}
			url[n.U] = true
		}
		if l == D-1 && gotX(n.S) {
			if n.S == stGotRedirected && len(t.kids[i]) > 1 {
				return false
			}
			continue // children, if any, are on level D and therefore Fresh
		}
		if !older(s, t, i, func(int) bool { return false }, false) {
			return false
		}
	}
	return true
}

// invB: the tree as CompleteAndCheck sees it at the finisher. D is the level
// the round worked on: its nodes are Seen/Failed/Completed leaves or got
// children / a redirect (then all their children are the Fresh leaves of level
// D+1); the levels above follow older(). The seed may have been set Completed
// by preprocess() itself: when every node of level D was rejected (then nothing
// in the tree has work) or when all of them were seen before.
func invB(s snap) bool {
	if len(s) == 1 {
		return s[0].S == stFailed || s[0].S == stCompleted
	}
	t := analyse(s)
	D := t.maxd
	if t.nf > 0 {
		D = t.maxd - 1
	}
	forced := false
	if s[0].S == stCompleted {
		// (1) every node of level D was rejected: nothing has work, Failed/Seen are leaves, and the
		// parents of the rejected nodes are now Completed leaves on the deepest level that is left
		all, leaf := true, false
		for i, n := range s {
			if !noWork(n.S) || (n.S != stCompleted && len(t.kids[i]) > 0) {
				all = false
			}
			if n.S == stCompleted && len(t.kids[i]) == 0 && t.lvl[i] == t.maxd {
				leaf = true
			}
		}
		if all && leaf {
			return true
		}
		// (2) every node of level D had been seen before
		if t.nf > 0 {
			return false
		}
		forced = true
	} else if !gotX(s[0].S) {
		return false
	}
	allSeen := true
	for i, n := range s {
		if t.lvl[i] == D && n.S != stSeen {
			allSeen = false
		}
	}
	if allSeen != forced { // preprocess() sets the seed Completed exactly when all of level D was seen before
		return false
	}
	for i, n := range s {
		l := t.lvl[i]
		switch {
		case n.S == stFresh:
			if l != D+1 || len(t.kids[i]) > 0 {
				return false
			}
		case l > D || n.S == stPreProcessed || n.S == stArchived:
			return false
		case l == D:
			switch n.S {
			case stGotChildren:
				if len(t.kids[i]) == 0 {
					return false
				}
			case stGotRedirected:
				if len(t.kids[i]) != 1 {
					return false
				}
			default: // Seen, Failed, Completed
				if len(t.kids[i]) > 0 {
					return false
				}
			}
		default:
			if !older(s, t, i, func(c int) bool { return t.lvl[c] == D }, forced) {
				return false
			}
		}
	}
	return true
}

// statusKey: the tree without its URLs (CompleteAndCheck never looks at them).
func statusKey(s snap) string {
	c := make(snap, len(s))
	for i, n := range s {
		c[i] = snode{n.P, "a", n.S}
	}
	return c.key()
}

// shapes calls f with the parent vector of every ordered rooted tree of n nodes
// (nodes numbered in pre-order: a new node hangs under the previous node or one of its ancestors).
func shapes(n int, f func(p []int)) {
	p := make([]int, n)
	p[0] = -1
	var rec func(i int)
	rec = func(i int) {
		if i == n {
			f(p)
			return
		}
		for a := i - 1; a >= 0; a = p[a] {
			p[i] = a
			rec(i + 1)
		}
	}
	rec(1)
}

// vectors calls f with every vector of length n over 0..k-1 (growth=false) or
// every restricted-growth vector (growth=true: all partitions of n items).
func vectors(n, k int, growth bool, f func(v []int)) {
	v := make([]int, n)
	var rec func(i, max int)
	rec = func(i, max int) {
		if i == n {
			f(v)
			return
		}
		lim := k
		if growth {
			lim = max + 1
		}
		for x := 0; x < lim; x++ {
			v[i] = x
			m := max
			if x == max {
				m++
			}
			rec(i+1, m)
		}
	}
	rec(0, 0)
}

type scopeResult struct {
	vios     []violation
	samples  []any
	coverage map[string]any
}

func runTreeCase(s snap, op string) *world {
	w := build(s)
	w.check("small-scope.given-tree")
	if w.broken() {
		return w
	}
	if op == "DedupeItems" {
		w.dedupe()
	} else {
		w.finish()
	}
	return w
}

// needs: the smallest tree bound under which the search can reach s at the given call
// site, provided no node has more than b.Kids children: s itself plus one rejected child
// for every node that got children and has none left (0 = out of the search's reach).
func needs(s snap, b bounds, site string) int {
	t := analyse(s)
	n := len(s)
	for i := range s {
		if len(t.kids[i]) > b.Kids {
			return 0
		}
		if site == "DedupeItems" && gotX(s[i].S) && len(t.kids[i]) == 0 {
			n++
		}
	}
	if site == "CompleteAndCheck" && t.nf == 0 && s[0].S == stCompleted {
		seen := false
		for i := range s {
			seen = seen || (t.lvl[i] == t.maxd && s[i].S == stSeen)
		}
		if !seen {
			n++ // the "nothing left" case: at least one rejected child
		}
	}
	return n
}

func smallScope(reached *stats, b bounds) scopeResult {
	r := scopeResult{coverage: map[string]any{}}
	seen := map[string]bool{}
	count := map[string]int{}
	run := func(s snap, op string, reachedToo bool) {
		count[op]++
		w := runTreeCase(s, op)
		for _, f := range w.fails {
			if !seen[f.Sig] {
				seen[f.Sig] = true
				if !reachedToo {
					f.Msg += " (tree taken from the shape invariant only; the search did not reach it within its bounds)"
				}
				r.vios = append(r.vios, violation{Sig: f.Sig, Msg: f.Msg, Kind: "tree", Tree: append(snap{}, s...), Op: op, Bounds: bounds{N: scopeM}})
			}
		}
		if count[op]%4000 == 1 && len(r.samples) < 6 {
			d, _ := dumpReal(w.real)
			r.samples = append(r.samples, map[string]any{"small_scope": op, "tree": s.String(), "after": toSnap(d).String()})
		}
	}
	hitA, hitB, effect := 0, 0, 0
	inA, inB := 0, 0 // enumerated trees that the search, with its bounds, must reach if the invariant is exact
	loose := []string{}
	for n := 1; n <= scopeM; n++ {
		shapes(n, func(p []int) {
			s := make(snap, n)
			vectors(n, nStatus, false, func(st []int) {
				for i := range s {
					s[i] = snode{p[i], string(rune('a' + i)), st[i]}
				}
				if invB(s) {
					within := needs(s, b, "CompleteAndCheck") > 0 && needs(s, b, "CompleteAndCheck") <= b.N
					if within {
						inB++
					}
					if reached.PreFinish[statusKey(s)] > 0 {
						hitB++
					} else if within {
						loose = append(loose, "CompleteAndCheck on "+s.String())
					}
					run(s, "CompleteAndCheck", reached.PreFinish[statusKey(s)] > 0)
				}
				if !invA(s) { // with all URLs different; equal URLs only restrict further
					return
				}
				vectors(n, 0, true, func(u []int) {
					for i := range s {
						s[i].U = string(rune('a' + u[i]))
					}
					if !invA(s) {
						return
					}
					within := needs(s, b, "DedupeItems") > 0 && needs(s, b, "DedupeItems") <= b.N
					if within {
						inA++
					}
					if reached.PreDedupe[s.key()] > 0 {
						hitA++
					} else if within {
						loose = append(loose, "DedupeItems on "+s.String())
					}
					run(s, "DedupeItems", reached.PreDedupe[s.key()] > 0)
					for i := range s {
						for j := i + 1; j < n; j++ {
							if i > 0 && s[i].U == s[j].U {
								effect++
								return
							}
						}
					}
				})
			})
		})
	}
	r.coverage = map[string]any{
		"max_nodes": scopeM, "statuses": nStatus, "url_patterns": "all partitions of the nodes into equal-URL classes",
		"dedupe_trees": count["DedupeItems"], "dedupe_trees_with_a_duplicate": effect, "dedupe_trees_also_reached_by_the_search": hitA,
		"finisher_trees": count["CompleteAndCheck"], "finisher_trees_also_reached_by_the_search": hitB,
		"dedupe_trees_the_search_bounds_allow": inA, "finisher_trees_the_search_bounds_allow": inB,
		"enumerated_but_not_reached_although_within_search_bounds": loose,
		"rule":    "every ordered tree x status vector x URL partition of <= max_nodes nodes satisfying the reachable-shape invariant (invA for DedupeItems, invB for CompleteAndCheck); the search asserts the invariant on every tree it reaches at those call sites",
		"summary": fmt.Sprintf("%d DedupeItems trees (%d within the search's bounds, %d reached by it), %d CompleteAndCheck trees (%d within bounds, %d reached)", count["DedupeItems"], inA, hitA, count["CompleteAndCheck"], inB, hitB),
	}
	return r
}
