// Stage-shaped operations: what preprocessor.preprocess, archiver.archive,
// postprocessor.postprocessItem and finisher.worker do to a seed's tree, with
// every decision that depends on the outside world (filters, seencheck, HTTP,
// extracted links) turned into an enumerated choice. The tree methods called,
// and their order, are those of the stages; each is mirrored on the reference.
package main

import (
	"fmt"
	"strings"

	"github.com/internetarchive/Zeno/pkg/models"
)

// phases of one trip through the pipeline
const (
	phPre1   = iota // preprocess: reject children, DedupeItems, "no more work" test
	phPre2          // preprocess: seencheck marks, request building
	phArch          // archive
	phPost          // postprocess
	phFin           // finisher
	phDone          // seed declared complete (terminal)
	phBroken        // an oracle failed in a way that makes the successor meaningless
)

var phName = [...]string{"preprocess.filter+dedupe", "preprocess.seencheck+request", "archive", "postprocess", "finisher", "done", "broken"}

type bounds struct {
	N    int // the tree never holds more than N nodes
	Kids int // a page yields at most this many assets
	// URLs: a new child or redirect target takes any URL already in the tree (the seed's
	// included) or a new one; new URLs are interchangeable, so they are introduced in a
	// fixed order (symmetry reduction, see snap.canon).
}

func (w *world) deepest() []*models.Item {
	items, err := w.real.GetNodesAtLevel(w.real.GetMaxDepth())
	if err != nil {
		panic(err)
	}
	return items
}

func (w *world) set(it *models.Item, st int) {
	it.SetStatus(models.ItemState(st))
	w.ref.setStatus(it.GetID(), st)
}

func count(items []*models.Item, st int) (n int) {
	for _, it := range items {
		if int(it.GetStatus()) == st {
			n++
		}
	}
	return
}

func words(alpha string, n int) []string {
	out := []string{""}
	for i := 0; i < n; i++ {
		var nx []string
		for _, p := range out {
			for _, c := range alpha {
				nx = append(nx, p+string(c))
			}
		}
		out = nx
	}
	return out
}

// choices lists every decision vector of the given phase in the current state.
func (w *world) choices(ph int, b bounds) []string {
	items := w.deepest()
	seedSt := int(w.real.GetStatus())
	switch ph {
	case phPre1:
		if len(items) == 1 && items[0].IsSeed() {
			return []string{"k", "f", "x"} // keep / URL invalid -> Failed / excluded -> Completed
		}
		return words("kr", len(items)) // keep / reject (invalid URL, include/exclude filters, bare domain)
	case phPre2:
		return words("skf", count(items, stFresh)) // seen / keep -> PreProcessed / request cannot be built -> Failed
	case phArch:
		if seedSt != stPreProcessed && seedSt != stGotRedirected && seedSt != stGotChildren {
			return []string{"-"} // archiver.worker skips the seed
		}
		return words("af", count(items, stPreProcessed)) // archived / failed
	case phPost:
		if seedSt != stArchived && seedSt != stGotRedirected && seedSt != stGotChildren {
			return []string{"-"} // postprocessor.worker skips the seed
		}
		// per archived item: c (completed) | r:<x> (redirect to x) | a:<x>[<y>] (assets x, y)
		cur := toSnap(w.ref.dump()).canon()
		known := len(cur.letters())
		room := b.N - len(cur)
		type partial struct {
			c     string
			fresh int // new URLs introduced so far
		}
		letters := func(p partial) []string { // URLs in the tree, URLs introduced earlier in this vector, the next new one
			var l []string
			for i := 0; i <= known+p.fresh; i++ {
				l = append(l, string(rune('a'+i)))
			}
			return l
		}
		ext := func(p partial, prefix string, k int) []partial { // append k URL letters
			out := []partial{{p.c + prefix, p.fresh}}
			for ; k > 0; k-- {
				var nx []partial
				for _, q := range out {
					l := letters(q)
					for i := len(l) - 1; i >= 0; i-- { // new URL first: the first counterexample found reads naturally
						x := l[i]
						f := q.fresh
						if i == known+q.fresh {
							f++
						}
						nx = append(nx, partial{q.c + x, f})
					}
				}
				out = nx
			}
			return out
		}
		out := []partial{{}}
		for i := count(items, stArchived); i > 0; i-- {
			var nx []partial
			for _, p := range out {
				if p.c != "" {
					p.c += ","
				}
				nx = append(nx, partial{p.c + "c", p.fresh})
				nx = append(nx, ext(p, "r:", 1)...)
				for k := 1; k <= b.Kids; k++ {
					nx = append(nx, ext(p, "a:", k)...)
				}
			}
			out = out[:0]
			for _, p := range nx {
				if added(p.c) <= room {
					out = append(out, p)
				}
			}
		}
		var cs []string
		for _, p := range out {
			cs = append(cs, p.c)
		}
		return cs
	}
	return []string{""}
}

// added = number of nodes a postprocess decision vector creates.
func added(choice string) (n int) {
	for _, o := range strings.Split(choice, ",") {
		if len(o) > 2 {
			n += len(o) - 2
		}
	}
	return
}

// apply performs one phase with the given decisions and returns the next phase.
func (w *world) apply(ph int, choice string) (next int) {
	defer func() {
		if r := recover(); r != nil {
			msg := fmt.Sprint(r)
			w.fail(true, "panic:"+phName[ph]+":"+strings.ReplaceAll(firstWords(msg, 6), " ", "-"), "panic in %s with decisions %q: %s", phName[ph], choice, msg)
			next = phBroken
		}
	}()
	switch ph {
	case phPre1:
		next = w.pre1(choice)
	case phPre2:
		next = w.pre2(choice)
	case phArch:
		next = w.archive(choice)
	case phPost:
		next = w.post(choice)
	case phFin:
		if w.finish() {
			next = phDone
		} else {
			next = phPre1 // finisher feeds the seed back: reactor -> preprocessor
		}
	}
	if w.broken() {
		next = phBroken
	}
	return next
}

// preprocess(), first half (preprocessor.go: loop over the fresh level, DedupeItems, first emptiness test).
func (w *world) pre1(choice string) int {
	operatingDepth := w.real.GetMaxDepth()
	items := w.deepest()
	for i, it := range items {
		if int(it.GetStatus()) != stFresh {
			// preprocess() panics here ("non-fresh item received"): the finisher sent the seed round again
			// although what is left to do is not where the stages look for it.
			w.fail(true, "pending-work-not-on-deepest-level:"+stName[int(it.GetStatus())], "seed was fed back but deepest-level item %s is %s: %s", it.GetID(), stName[int(it.GetStatus())], toSnap(w.ref.dump()))
			return phBroken
		}
		switch choice[i] {
		case 'f':
			w.set(it, stFailed)
			w.check("preprocess.seed-invalid")
			return phArch
		case 'x':
			w.set(it, stCompleted)
			w.check("preprocess.seed-excluded")
			return phArch
		case 'r':
			it.GetParent().RemoveChild(it)
			w.ref.removeChild(it.GetID())
		}
	}
	w.check("preprocess.reject")
	w.dedupe()
	if w.broken() {
		return phBroken
	}
	left, _ := w.real.GetNodesAtLevel(operatingDepth)
	if len(left) == 0 {
		w.set(w.real, stCompleted)
		w.check("preprocess.nothing-left")
		return phArch
	}
	return phPre2
}

// preprocess(), second half (seencheck.SeencheckItem / hq.SeencheckItem, request building).
func (w *world) pre2(choice string) int {
	var fresh []*models.Item
	for _, it := range w.deepest() {
		if int(it.GetStatus()) == stFresh {
			fresh = append(fresh, it)
		}
	}
	var rest []*models.Item
	var restChoice []byte
	for i, it := range fresh {
		if choice[i] == 's' {
			w.set(it, stSeen)
		} else {
			rest = append(rest, it)
			restChoice = append(restChoice, choice[i])
		}
	}
	w.check("preprocess.seencheck")
	if len(rest) == 0 {
		w.set(w.real, stCompleted)
		w.check("preprocess.all-seen")
		return phArch
	}
	for i, it := range rest {
		if restChoice[i] == 'f' {
			w.set(it, stFailed)
		} else {
			w.set(it, stPreProcessed)
		}
	}
	w.check("preprocess.request")
	return phArch
}

func (w *world) archive(choice string) int {
	if choice == "-" {
		return phPost
	}
	i := 0
	for _, it := range w.deepest() {
		if int(it.GetStatus()) != stPreProcessed {
			continue
		}
		if choice[i] == 'a' {
			w.set(it, stArchived)
		} else {
			w.set(it, stFailed)
		}
		i++
	}
	w.check("archive")
	return phPost
}

func (w *world) post(choice string) int {
	if choice == "-" {
		return phFin
	}
	opts := strings.Split(choice, ",")
	// the decision letters name URLs canonically (snap.canon); translate them to the URLs of this tree
	cur := toSnap(w.ref.dump())
	concrete := map[string]string{}
	used := map[string]bool{}
	for i, l := range cur.letters() {
		concrete[string(rune('a'+i))] = l
		used[l] = true
	}
	url := func(x string) string {
		if _, ok := concrete[x]; !ok {
			for c := 'a'; ; c++ { // a URL not in the tree
				if !used[string(c)] {
					concrete[x], used[string(c)] = string(c), true
					break
				}
			}
		}
		return concrete[x]
	}
	i := 0
	for _, it := range w.deepest() { // postprocess(): the list is taken once, before any child is added
		if int(it.GetStatus()) != stArchived {
			continue
		}
		o := opts[i]
		i++
		switch o[0] {
		case 'c':
			w.set(it, stCompleted)
		case 'r':
			w.addChild(it, url(o[2:3]), stGotRedirected)
		case 'a':
			for _, x := range o[2:] {
				w.addChild(it, url(string(x)), stGotChildren)
			}
			// tail of postprocessItem
			if !it.HasChildren() && !it.HasRedirection() && int(it.GetStatus()) != stFailed {
				w.set(it, stCompleted)
			}
		}
	}
	w.check("postprocess")
	return phFin
}

func (w *world) addChild(parent *models.Item, letter string, from int) {
	id := fmt.Sprintf("n%d", w.nextID)
	w.nextID++
	if err := parent.AddChild(newItem(id, letter), models.ItemState(from)); err != nil {
		panic(err) // postprocessItem panics as well
	}
	w.ref.addChild(parent.GetID(), id, urlOf(letter), from)
}

func firstWords(s string, n int) string {
	f := strings.Fields(s)
	if len(f) > n {
		f = f[:n]
	}
	return strings.Join(f, " ")
}
