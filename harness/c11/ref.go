// Reference tree for C11: deliberately boring (a slice of records, int links).
// It shares no code with pkg/models; statuses reuse the numeric values of
// models.ItemState only so that the two sides can be compared.
package main

import (
	"fmt"
	"strings"
)

const (
	stFresh = iota
	stPreProcessed
	stArchived
	stFailed
	stCompleted
	stSeen
	stGotRedirected
	stGotChildren
	nStatus
)

var stName = [...]string{"Fresh", "PreProcessed", "Archived", "Failed", "Completed", "Seen", "GotRedirected", "GotChildren"}

type rnode struct {
	id, url string
	st      int
	parent  int // index into rtree.n, -1 for the seed
	kids    []int
}

// rtree: n[0] is the seed. Removed nodes stay in the slice but are unreachable.
type rtree struct{ n []rnode }

// dnode is one line of a pre-order dump; both sides are compared in this form.
type dnode struct {
	ID, Parent, URL string
	St              int
}

func (t *rtree) find(id string) int {
	var walk func(i int) int
	walk = func(i int) int {
		if t.n[i].id == id {
			return i
		}
		for _, k := range t.n[i].kids {
			if r := walk(k); r >= 0 {
				return r
			}
		}
		return -1
	}
	return walk(0)
}

func (t *rtree) addChild(pid, id, url string, from int) {
	p := t.find(pid)
	t.n = append(t.n, rnode{id: id, url: url, st: stFresh, parent: p})
	t.n[p].kids = append(t.n[p].kids, len(t.n)-1)
	t.n[p].st = from
}

// removeChild detaches the child (and with it its subtree) from its parent.
func (t *rtree) removeChild(id string) {
	c := t.find(id)
	p := t.n[c].parent
	var keep []int
	for _, k := range t.n[p].kids {
		if k != c {
			keep = append(keep, k)
		}
	}
	t.n[p].kids = keep
}

func (t *rtree) setStatus(id string, st int) { t.n[t.find(id)].st = st }

func (t *rtree) depthBelow(i int) int {
	d := 0
	for _, k := range t.n[i].kids {
		if x := t.depthBelow(k) + 1; x > d {
			d = x
		}
	}
	return d
}

// deepest returns the ids of the nodes on the deepest level, left to right.
func (t *rtree) deepest() []string {
	target := t.depthBelow(0)
	var out []string
	var walk func(i, l int)
	walk = func(i, l int) {
		if l == target {
			out = append(out, t.n[i].id)
			return
		}
		for _, k := range t.n[i].kids {
			walk(k, l+1)
		}
	}
	walk(0, 0)
	return out
}

func noWork(st int) bool { return st == stCompleted || st == stSeen || st == stFailed }

// pendingStatus: the node itself still awaits fetching or post-processing.
func pendingStatus(st int) bool { return st == stFresh || st == stPreProcessed || st == stArchived }

// markCompleted: bottom-up, a node that got children or a redirect becomes
// Completed once it has no child left or none of its children has work.
func (t *rtree) markCompleted(i int) {
	all := true
	for _, k := range t.n[i].kids {
		t.markCompleted(k)
		if !noWork(t.n[k].st) {
			all = false
		}
	}
	if all && (t.n[i].st == stGotChildren || t.n[i].st == stGotRedirected) {
		t.n[i].st = stCompleted
	}
}

func (t *rtree) completeAndCheck() bool {
	if noWork(t.n[0].st) {
		return true
	}
	t.markCompleted(0)
	return noWork(t.n[0].st)
}

func (t *rtree) dump() []dnode {
	var out []dnode
	var walk func(i int)
	walk = func(i int) {
		p := ""
		if t.n[i].parent >= 0 {
			p = t.n[t.n[i].parent].id
		}
		out = append(out, dnode{t.n[i].id, p, t.n[i].url, t.n[i].st})
		for _, k := range t.n[i].kids {
			walk(k)
		}
	}
	walk(0)
	return out
}

// ---------------------------------------------------------------- snapshots

// snode/snap: identity-free form of a dump (parent as pre-order index, URL as
// its letter). It is the state key of the search and the unit a tree is
// rebuilt from.
type snode struct {
	P int    `json:"p"`
	U string `json:"u"`
	S int    `json:"s"`
}
type snap []snode

func toSnap(d []dnode) snap {
	idx := map[string]int{}
	s := make(snap, len(d))
	for i, n := range d {
		idx[n.ID] = i
		p := -1
		if n.Parent != "" {
			p = idx[n.Parent]
		}
		s[i] = snode{p, letterOf(n.URL), n.St}
	}
	return s
}

// canon renames the URLs by first occurrence in pre-order (seed = "a", next new
// URL = "b", ...): the tree code only ever compares URLs for equality, so two
// trees that differ by a renaming of URLs are the same state.
func (s snap) canon() snap {
	m := map[string]string{}
	out := make(snap, len(s))
	for i, n := range s {
		if _, ok := m[n.U]; !ok {
			m[n.U] = string(rune('a' + len(m)))
		}
		out[i] = snode{n.P, m[n.U], n.S}
	}
	return out
}

// letters returns the distinct URL letters in order of first occurrence.
func (s snap) letters() []string {
	seen := map[string]bool{}
	var out []string
	for _, n := range s {
		if !seen[n.U] {
			seen[n.U] = true
			out = append(out, n.U)
		}
	}
	return out
}

func (s snap) key() string {
	b := make([]byte, 0, len(s)*4)
	for _, n := range s {
		b = append(b, byte('0'+n.P+1))
		b = append(b, n.U...)
		b = append(b, byte('0'+n.S), ' ')
	}
	return string(b)
}

func parseKey(k string) snap {
	var s snap
	for _, t := range strings.Fields(k) {
		s = append(s, snode{int(t[0]-'0') - 1, t[1 : len(t)-1], int(t[len(t)-1] - '0')})
	}
	return s
}

// String draws the snapshot: seed(GotChildren)[u(Completed) v(Fresh)].
func (s snap) String() string {
	kids := make([][]int, len(s))
	for i, n := range s {
		if n.P >= 0 {
			kids[n.P] = append(kids[n.P], i)
		}
	}
	var f func(i int) string
	f = func(i int) string {
		r := fmt.Sprintf("%s(%s)", s[i].U, stName[s[i].S])
		if len(kids[i]) > 0 {
			r += "["
			for j, k := range kids[i] {
				if j > 0 {
					r += " "
				}
				r += f(k)
			}
			r += "]"
		}
		return r
	}
	return f(0)
}

func (s snap) level(i int) int {
	l := 0
	for s[i].P >= 0 {
		i = s[i].P
		l++
	}
	return l
}
