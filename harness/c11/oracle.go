// The world (real tree + reference tree side by side) and the oracle of C11.
package main

import (
	"fmt"
	"sort"
	"strings"

	"github.com/internetarchive/Zeno/pkg/models"
)

const urlBase = "http://site.example/"

// urlOf: the URL of a letter. The letters a, b, c, d ... are spelt /a, /A, /b, /B ...: consecutive letters
// differ only in the case of one path character, so any URL identity coarser than string equality (case
// folding, a shortened key) merges two different URLs and shows as a lost URL.
func urlOf(letter string) string {
	i := int(letter[0] - 'a')
	name := string(rune('a' + i/2))
	if i%2 == 1 {
		name = strings.ToUpper(name)
	}
	return urlBase + name + letter[1:]
}

func letterOf(u string) string {
	name := strings.TrimPrefix(u, urlBase)
	if name == "" {
		return name
	}
	c := name[0]
	i := 0
	if c >= 'A' && c <= 'Z' {
		i = 2*int(c-'A') + 1
	} else {
		i = 2 * int(c-'a')
	}
	return string(rune('a'+i)) + name[1:]
}

// newItem builds a real item the way the stages do (NewItem + a parsed URL;
// in Zeno the preprocessor's NormalizeURL does the parsing).
func newItem(id, letter string) *models.Item {
	u := &models.URL{Raw: urlOf(letter)}
	if err := u.Parse(); err != nil {
		panic(err)
	}
	return models.NewItem(id, u, "")
}

type failure struct {
	Sig, Msg string
	broken   bool // the real tree can no longer be trusted: do not explore further from here
}

// world: one real seed tree and its boring twin.
type world struct {
	real   *models.Item
	ref    *rtree
	nextID int
	fails  []failure
	checks int // oracle evaluations

	onDedupe func(before, after snap) // statistics hook of the search
}

func (w *world) fail(broken bool, sig, format string, a ...any) {
	w.fails = append(w.fails, failure{sig, fmt.Sprintf(format, a...), broken})
}

func (w *world) broken() bool {
	for _, f := range w.fails {
		if f.broken {
			return true
		}
	}
	return false
}

// build makes a world from a snapshot through the public API only.
func build(s snap) *world {
	items := make([]*models.Item, len(s))
	ref := &rtree{}
	for i, n := range s {
		id := fmt.Sprintf("n%d", i)
		items[i] = newItem(id, n.U)
		if n.P < 0 {
			ref.n = append(ref.n, rnode{id: id, url: urlOf(n.U), parent: -1})
			continue
		}
		if err := items[n.P].AddChild(items[i], models.ItemGotChildren); err != nil {
			panic(err)
		}
		ref.addChild(fmt.Sprintf("n%d", n.P), id, urlOf(n.U), stGotChildren)
	}
	for i, n := range s {
		items[i].SetStatus(models.ItemState(n.S))
		ref.n[i].st = n.S
	}
	return &world{real: items[0], ref: ref, nextID: len(s)}
}

// dumpReal reads the real tree through its public getters only and checks the
// link structure directly on the way (oracle part L):
//
//	L1 no nil child, L2 every child's parent pointer is the node that lists it,
//	L3 the seed has no parent, L4 no node is listed twice, L5 ids are unique.
func dumpReal(seed *models.Item) (d []dnode, problem string) {
	seenPtr := map[*models.Item]bool{}
	seenID := map[string]bool{}
	if seed.GetParent() != nil {
		problem = "seed-has-parent"
	}
	var walk func(n *models.Item, parent string)
	walk = func(n *models.Item, parent string) {
		if seenPtr[n] {
			problem = "node-listed-twice"
			return
		}
		seenPtr[n] = true
		if seenID[n.GetID()] {
			problem = "duplicate-id"
		}
		seenID[n.GetID()] = true
		d = append(d, dnode{n.GetID(), parent, n.GetURL().String(), int(n.GetStatus())})
		for _, c := range n.GetChildren() {
			if c == nil {
				problem = "nil-child"
				continue
			}
			if c.GetParent() != n {
				problem = "child-parent-pointer-asymmetric"
			}
			walk(c, n.GetID())
		}
	}
	walk(seed, "")
	return d, problem
}

// restated consistency rules (oracle part W): the structural demands of
// Item.CheckConsistency written down a second time on the dump, so that the
// verdict does not rest on the model's own method alone.
func wellFormed(d []dnode) string {
	st := map[string]int{}
	nk := map[string]int{}
	for _, n := range d {
		st[n.ID] = n.St
		if n.Parent != "" {
			nk[n.Parent]++
		}
	}
	for _, n := range d {
		switch {
		case n.St == stFresh && nk[n.ID] > 0:
			return "fresh-with-children"
		case n.St == stFresh && n.Parent != "" && st[n.Parent] != stGotChildren && st[n.Parent] != stGotRedirected:
			return "fresh-under-" + stName[st[n.Parent]]
		case n.St == stGotRedirected && nk[n.ID] > 1:
			return "redirected-with-several-children"
		case nk[n.ID] > 0 && n.St != stGotChildren && n.St != stGotRedirected && n.St != stCompleted && n.St != stFailed:
			return "children-under-" + stName[n.St]
		}
	}
	return ""
}

func sameDump(a, b []dnode) string {
	if len(a) != len(b) {
		return fmt.Sprintf("node-count real=%d reference=%d", len(a), len(b))
	}
	for i := range a {
		switch {
		case a[i].ID != b[i].ID || a[i].Parent != b[i].Parent:
			return "shape"
		case a[i].URL != b[i].URL:
			return "url"
		case a[i].St != b[i].St:
			return "status"
		}
	}
	return ""
}

// check is evaluated after every (sub-)operation `op`:
//
//	L  direct link/id check, W restated rules, C Item.CheckConsistency()==nil,
//	R  the real tree equals the reference tree (ids, order, URLs, statuses),
//	D  the deepest level (what the next stage will work on) agrees with the reference.
func (w *world) check(op string) []dnode {
	w.checks++
	d, problem := dumpReal(w.real)
	if problem != "" {
		w.fail(true, "links:"+op+":"+problem, "after %s: %s in %s", op, problem, toSnap(d))
		return d
	}
	if err := w.real.CheckConsistency(); err != nil {
		w.fail(true, "inconsistent:"+op+":"+rule(err), "after %s: CheckConsistency: %v in %s", op, err, toSnap(d))
	} else if r := wellFormed(d); r != "" {
		w.fail(true, "ill-formed:"+op+":"+r, "after %s: %s (CheckConsistency accepted it) in %s", op, r, toSnap(d))
	}
	if diff := sameDump(d, w.ref.dump()); diff != "" {
		w.fail(true, "differs-from-reference:"+op+":"+strings.Fields(diff)[0], "after %s: %s; real %s reference %s", op, diff, toSnap(d), toSnap(w.ref.dump()))
		return d
	}
	items, err := w.real.GetNodesAtLevel(w.real.GetMaxDepth())
	var ids []string
	for _, it := range items {
		ids = append(ids, it.GetID())
	}
	if want := w.ref.deepest(); err != nil || strings.Join(ids, ",") != strings.Join(want, ",") {
		w.fail(true, "differs-from-reference:"+op+":deepest-level", "after %s: GetNodesAtLevel(GetMaxDepth()) = %v (err %v), reference %v in %s", op, ids, err, want, toSnap(d))
	}
	return d
}

// rule shortens a CheckConsistency error to its last clause (stable text, no ids).
func rule(err error) string {
	s := err.Error()
	if i := strings.LastIndex(s, ": "); i >= 0 {
		s = s[i+2:]
	}
	return strings.ReplaceAll(s, " ", "-")
}

// dedupe runs the real DedupeItems and judges it (oracle part U):
//
//	U1 afterwards no two non-seed nodes carry the same URL string,
//	U2 every URL present in the tree before is still present in the tree,
//
// The reference tree does not choose survivors itself (the property leaves the
// choice open): it removes exactly the nodes the real tree dropped - U1/U2 say
// whether that choice was legitimate - and then applies its own completion
// marking; part R of check() compares the result.
func (w *world) dedupe() {
	before, _ := dumpReal(w.real)
	if err := w.real.DedupeItems(); err != nil {
		w.fail(true, "dedupe-error", "DedupeItems: %v", err)
		return
	}
	after, problem := dumpReal(w.real)
	if problem != "" {
		w.check("dedupe")
		return
	}
	if w.onDedupe != nil {
		w.onDedupe(toSnap(before), toSnap(after))
	}
	alive := map[string]bool{}
	count := map[string]int{}
	present := map[string]bool{}
	for i, n := range after {
		alive[n.ID] = true
		present[n.URL] = true
		if i > 0 {
			count[n.URL]++
		}
	}
	for _, u := range sortedKeys(count) {
		if count[u] > 1 {
			w.fail(false, "dedupe-duplicate-left:"+dupClass(after, u), "DedupeItems left %d non-seed nodes with URL %s: before %s after %s", count[u], letterOf(u), toSnap(before), toSnap(after))
			break
		}
	}
	byID := map[string]dnode{}
	for _, n := range before {
		byID[n.ID] = n
	}
	for _, n := range before {
		if alive[n.ID] {
			continue
		}
		if alive[n.Parent] {
			w.ref.removeChild(n.ID) // top of a dropped subtree
		}
		if !present[n.URL] {
			// classify: was the lost node dropped itself or dragged along under a dropped ancestor?
			top := n
			for !alive[top.Parent] {
				top = byID[top.Parent]
			}
			class := "dropped-without-surviving-copy"
			if top.ID != n.ID {
				class = "below-dropped-duplicate"
			}
			w.fail(false, "dedupe-url-lost:"+class, "DedupeItems discarded URL %s altogether (node %s(%s), dropped subtree root %s(%s)): before %s after %s",
				letterOf(n.URL), n.ID, stName[n.St], letterOf(top.URL), stName[top.St], toSnap(before), toSnap(after))
			present[n.URL] = true // one report per dedupe call and class is enough
		}
	}
	w.ref.markCompleted(0)
	w.check("dedupe")
}

// dupClass says how the first two surviving nodes with URL u are related.
func dupClass(d []dnode, u string) string {
	parent := map[string]string{}
	var two []dnode
	for i, n := range d {
		parent[n.ID] = n.Parent
		if i > 0 && n.URL == u && len(two) < 2 {
			two = append(two, n)
		}
	}
	if two[0].Parent == two[1].Parent {
		return "siblings"
	}
	for p := two[1].Parent; p != ""; p = parent[p] {
		if p == two[0].ID {
			return "ancestor-and-descendant"
		}
	}
	return "different-branches"
}

// finish runs the real CompleteAndCheck and judges it (oracle part F):
//
//	declared complete  <=>  no node of the tree has status Fresh, PreProcessed or Archived.
func (w *world) finish() bool {
	before, _ := dumpReal(w.real)
	pending := ""
	for _, n := range before {
		if pendingStatus(n.St) {
			pending = stName[n.St]
			break
		}
	}
	complete := w.real.CompleteAndCheck()
	seedSt := stName[before[0].St]
	switch {
	case complete && pending != "":
		w.fail(false, "complete-with-pending:"+pending+":seed="+seedSt, "CompleteAndCheck()=true although a node is %s: %s", pending, toSnap(before))
	case !complete && pending == "":
		w.fail(false, "incomplete-without-pending:seed="+seedSt, "CompleteAndCheck()=false although no node is Fresh, PreProcessed or Archived: %s", toSnap(before))
	}
	if rc := w.ref.completeAndCheck(); rc != complete {
		w.fail(true, "differs-from-reference:finisher:verdict", "CompleteAndCheck()=%v, reference %v: %s", complete, rc, toSnap(before))
	}
	w.check("finisher")
	return complete
}

func sortedKeys(m map[string]int) []string {
	ks := make([]string, 0, len(m))
	for k := range m {
		ks = append(ks, k)
	}
	sort.Strings(ks)
	return ks
}
