// Harness for C11: the item tree stays well-formed and completion is detected exactly.
//
// Engine E2 (breadth-first search over stage-shaped operation sequences with a
// canonical state key) on the real, uninstrumented pkg/models. stages.go holds
// the operations, oracle.go the oracle, ref.go the reference tree, scope.go the
// small-scope part (every reachable-shaped tree up to 5 nodes).
//
// The search is level-synchronous: the parent process owns the state table and
// hands each level's frontier to 16 worker processes (--shard i/n --in=file).
package main

import (
	"bufio"
	"encoding/json"
	"fmt"
	"os"
	"path/filepath"
	"runtime/debug"
	"sort"
	"strconv"
	"strings"

	"github.com/internetarchive/Zeno/internal/verif/vrt/hkit"
)

const propID = "C11"

type step struct {
	Phase  string `json:"phase"`
	Choice string `json:"decisions"`
	After  string `json:"tree_after,omitempty"`
}

// violation: one per signature; Kind "history" (operation sequence from the
// fresh seed) or "tree" (small scope: one operation on one given tree).
type violation struct {
	Sig     string `json:"sig"`
	Msg     string `json:"message"`
	Kind    string `json:"kind"`
	History []step `json:"history,omitempty"`
	Tree    snap   `json:"tree,omitempty"`
	Op      string `json:"op,omitempty"`
	Bounds  bounds `json:"bounds"`
}

// succ is one transition found by a worker.
type succ struct {
	Src    int32
	Seq    int
	Choice string
	Ph     int
	Key    string
	Fails  []failure
}

// stats are summed over workers and levels.
type stats struct {
	Transitions int            `json:"transitions"`
	Checks      int            `json:"oracle_evaluations"`
	PerPhase    map[string]int `json:"transitions_per_phase"`
	Dedupes     map[string]int `json:"dedupe_calls_by_effect"`
	Verdicts    map[string]int `json:"finisher_verdicts"`
	PreDedupe   map[string]int `json:"pre_dedupe,omitempty"` // trees of <= scopeM nodes seen by DedupeItems / CompleteAndCheck
	PreFinish   map[string]int `json:"pre_finish,omitempty"`
	InvBroken   []string       `json:"inv_broken,omitempty"` // reachable trees outside the shape invariant of scope.go (an error of the check)
}

func newStats() *stats {
	return &stats{PerPhase: map[string]int{}, Dedupes: map[string]int{}, Verdicts: map[string]int{}, PreDedupe: map[string]int{}, PreFinish: map[string]int{}}
}

func (t *stats) merge(r *stats) {
	t.Transitions += r.Transitions
	t.Checks += r.Checks
	for _, p := range []struct{ a, b map[string]int }{{t.PerPhase, r.PerPhase}, {t.Dedupes, r.Dedupes}, {t.Verdicts, r.Verdicts}, {t.PreDedupe, r.PreDedupe}, {t.PreFinish, r.PreFinish}} {
		for k, v := range p.b {
			p.a[k] += v
		}
	}
	t.InvBroken = append(t.InvBroken, r.InvBroken...)
}

// expand runs every decision vector of phase ph on the tree s: each one on a
// real tree freshly rebuilt from s through the public API.
func expand(b bounds, src int32, ph int, s snap, st *stats, out *[]succ) {
	for seq, c := range build(s).choices(ph, b) {
		w := build(s)
		w.onDedupe = func(before, after snap) {
			if len(before) == len(after) {
				st.Dedupes["nothing removed"]++
			} else {
				st.Dedupes["removed nodes"]++
			}
			if !invA(before) && len(st.InvBroken) < 5 {
				st.InvBroken = append(st.InvBroken, "DedupeItems sees "+before.String())
			}
			if len(before) <= scopeM {
				st.PreDedupe[before.canon().key()]++
			}
		}
		if ph == phFin {
			if !invB(s) && len(st.InvBroken) < 5 {
				st.InvBroken = append(st.InvBroken, "CompleteAndCheck sees "+s.String())
			}
			if len(s) <= scopeM {
				st.PreFinish[statusKey(s)]++
			}
		}
		next := w.apply(ph, c)
		after := toSnap(w.ref.dump())
		if next != phBroken {
			d, _ := dumpReal(w.real)
			after = toSnap(d)
		}
		st.Transitions++
		st.PerPhase[phName[ph]]++
		st.Checks += w.checks
		if ph == phFin {
			st.Verdicts[map[bool]string{true: "complete", false: "fed back"}[next == phDone]]++
		}
		*out = append(*out, succ{src, seq, c, next, after.canon().key(), w.fails})
	}
}

type rec struct {
	parent int32
	ph     int8
	choice string
	key    string
}

type search struct {
	b     bounds
	recs  []rec
	index map[string]int32
	st    *stats
	vios  map[string]violation
	vioAt map[string][5]int // level, tree size, -distinct URLs left, source state, decision index of the witness
	tmp   string
	level int
}

func (s *search) add(parent int32, ph int, choice, key string) (int32, bool) {
	k := strconv.Itoa(ph) + key
	if j, ok := s.index[k]; ok {
		return j, false
	}
	s.recs = append(s.recs, rec{parent, int8(ph), choice, key})
	s.index[k] = int32(len(s.recs) - 1)
	return int32(len(s.recs) - 1), true
}

func (s *search) history(i int32) []step {
	var h []step
	for ; s.recs[i].parent >= 0; i = s.recs[i].parent {
		h = append(h, step{phName[s.recs[s.recs[i].parent].ph], s.recs[i].choice, parseKey(s.recs[i].key).String()})
	}
	for l, r := 0, len(h)-1; l < r; l, r = l+1, r-1 {
		h[l], h[r] = h[r], h[l]
	}
	return h
}

func less(a, b [5]int) bool {
	for i := range a {
		if a[i] != b[i] {
			return a[i] < b[i]
		}
	}
	return false
}

const inlineBelow = 1500 // smaller frontiers are expanded by the parent itself

// explore: level-synchronous breadth-first search from the fresh seed.
func explore(b bounds) *search {
	s := &search{b: b, index: map[string]int32{}, st: newStats(), vios: map[string]violation{}, vioAt: map[string][5]int{}, tmp: os.Getenv("VERIF_TMP")}
	if s.tmp == "" {
		s.tmp = os.TempDir()
	}
	s.add(-1, phPre1, "", seedSnap.key())
	frontier := []int32{0}
	for len(frontier) > 0 {
		var next []int32
		take := func(t succ) {
			j, fresh := s.add(t.Src, t.Ph, t.Choice, t.Key)
			if fresh && t.Ph != phDone && t.Ph != phBroken {
				next = append(next, j)
			}
			for _, f := range t.Fails {
				// witness: shortest history; among those of one level the first in search order, whichever worker found it
				at := [5]int{s.level, len(s.recs[t.Src].key), -len(parseKey(t.Key).letters()), int(t.Src), t.Seq}
				if old, ok := s.vioAt[f.Sig]; !ok || (old[0] == at[0] && less(at, old)) {
					h := append(s.history(t.Src), step{phName[s.recs[t.Src].ph], t.Choice, parseKey(t.Key).String()})
					s.vios[f.Sig] = violation{Sig: f.Sig, Msg: f.Msg, Kind: "history", History: h, Bounds: b}
					s.vioAt[f.Sig] = at
				}
			}
		}
		if len(frontier) < inlineBelow {
			for _, i := range frontier {
				var succs []succ
				expand(b, i, int(s.recs[i].ph), parseKey(s.recs[i].key), s.st, &succs)
				for _, t := range succs {
					take(t)
				}
			}
		} else {
			s.farm(frontier, take)
		}
		frontier = next
		s.level++
	}
	return s
}

// farm writes the frontier to a file and lets the workers expand it.
func (s *search) farm(frontier []int32, take func(succ)) {
	in := filepath.Join(s.tmp, fmt.Sprintf("c11-%d-level-%d", os.Getpid(), s.level))
	f, err := os.Create(in)
	if err != nil {
		hkit.EngineError("%v", err)
	}
	bw := bufio.NewWriter(f)
	for _, i := range frontier {
		fmt.Fprintf(bw, "%d\t%d\t%s\n", i, s.recs[i].ph, s.recs[i].key)
	}
	bw.Flush()
	f.Close()
	const workers = 16
	outs := hkit.Shards(workers, "--in="+in, fmt.Sprintf("--n=%d", s.b.N), fmt.Sprintf("--kids=%d", s.b.Kids))
	for i, o := range outs {
		var st stats
		hkit.ShardResult(o, &st)
		s.st.merge(&st)
		of := fmt.Sprintf("%s.out.%d", in, i)
		g, err := os.Open(of)
		if err != nil {
			hkit.EngineError("%v", err)
		}
		sc := bufio.NewScanner(g)
		sc.Buffer(make([]byte, 1<<20), 1<<26)
		for sc.Scan() {
			p := strings.Split(sc.Text(), "\t")
			src, _ := strconv.Atoi(p[0])
			seq, _ := strconv.Atoi(p[1])
			ph, _ := strconv.Atoi(p[3])
			t := succ{Src: int32(src), Seq: seq, Choice: p[2], Ph: ph, Key: p[4]}
			if len(p) > 5 {
				json.Unmarshal([]byte(p[5]), &t.Fails)
			}
			take(t)
		}
		g.Close()
		os.Remove(of)
	}
	os.Remove(in)
}

// worker: expand lines shard, shard+of, ... of the frontier file.
func worker(a hkit.Args, b bounds) {
	in := a.Extra["in"]
	f, err := os.Open(in)
	if err != nil {
		hkit.EngineError("%v", err)
	}
	out, err := os.Create(fmt.Sprintf("%s.out.%d", in, a.Shard))
	if err != nil {
		hkit.EngineError("%v", err)
	}
	bw := bufio.NewWriter(out)
	st := newStats()
	emitted := map[string]bool{}
	sc := bufio.NewScanner(f)
	for line := 0; sc.Scan(); line++ {
		if line%a.Of != a.Shard {
			continue
		}
		p := strings.Split(sc.Text(), "\t")
		src, _ := strconv.Atoi(p[0])
		ph, _ := strconv.Atoi(p[1])
		var succs []succ
		expand(b, int32(src), ph, parseKey(p[2]), st, &succs)
		for _, t := range succs {
			k := strconv.Itoa(t.Ph) + t.Key
			if emitted[k] && len(t.Fails) == 0 {
				continue // the parent already gets this state from this worker
			}
			emitted[k] = true
			fmt.Fprintf(bw, "%d\t%d\t%s\t%d\t%s", t.Src, t.Seq, t.Choice, t.Ph, t.Key)
			if len(t.Fails) > 0 {
				j, _ := json.Marshal(t.Fails)
				fmt.Fprintf(bw, "\t%s", j)
			}
			bw.WriteByte('\n')
		}
	}
	bw.Flush()
	out.Close()
	hkit.EmitShardResult(st)
}

// validate re-executes complete histories on ONE continuous real tree (no
// rebuilding between the steps) and demands the same final tree and a silent
// oracle: evidence that the rebuild step of the search hides nothing. One
// history (a shortest one) per complete state, at most ~20000 of them.
func (s *search) validate() (replayed, terminal int, samples []any) {
	for _, r := range s.recs {
		if r.ph == phDone {
			terminal++
		}
	}
	stride := 1 + terminal/20000
	n := 0
	for i, r := range s.recs {
		if r.ph != phDone {
			continue
		}
		if n++; n%stride != 0 {
			continue
		}
		h := s.history(int32(i))
		w, ph := runHistory(h, nil)
		replayed++
		d, _ := dumpReal(w.real)
		clean := true
		for _, f := range w.fails {
			if _, known := s.vios[f.Sig]; !known {
				clean = false
			}
		}
		if ph != phDone || toSnap(d).canon().key() != r.key || !clean {
			hkit.EngineError("history replayed on one continuous tree ends in %s %s, the search had %s (oracle: %v): %v", phName[ph], toSnap(d), parseKey(r.key), w.fails, h)
		}
		if len(samples) < 5 && (replayed%1500 == 1 || len(h) >= 25) {
			samples = append(samples, map[string]any{"history": h})
		}
	}
	return
}

var seedSnap = snap{{-1, "a", stFresh}}

// runHistory executes a history from the fresh seed on one continuous world.
func runHistory(h []step, show func(st step, w *world)) (*world, int) {
	w := build(seedSnap)
	ph := phPre1
	for _, st := range h {
		if phName[ph] != st.Phase {
			hkit.EngineError("history step %v does not fit phase %s", st, phName[ph])
		}
		ph = w.apply(ph, st.Choice)
		if show != nil {
			show(st, w)
		}
		if ph == phBroken || ph == phDone {
			break
		}
	}
	return w, ph
}

func parseBounds(a hkit.Args) bounds {
	b := bounds{N: 6, Kids: 2}
	if a.Tier == "thorough" {
		b = bounds{N: 8, Kids: 2}
	}
	if v, ok := a.Extra["n"]; ok {
		fmt.Sscanf(v, "%d", &b.N)
	}
	if v, ok := a.Extra["kids"]; ok {
		fmt.Sscanf(v, "%d", &b.Kids)
	}
	return b
}

func main() {
	a := hkit.ParseArgs()
	if a.Of > 1 {
		debug.SetGCPercent(400) // workers: short-lived, allocation-heavy
	}
	b := parseBounds(a)
	switch {
	case a.Replay != "":
		replay(a.Replay)
	case a.Of > 1:
		worker(a, b)
	default:
		run(a, b)
	}
}

func run(a hkit.Args, b bounds) {
	s := explore(b)
	replayed, terminal, samples := s.validate()
	sc := smallScope(s.st, b)
	vios := sc.vios
	for _, v := range s.vios {
		vios = append(vios, v)
	}
	if len(s.st.InvBroken) > 0 {
		// A reachable tree outside the shape invariant: with a silent oracle the invariant (the check) is
		// wrong; next to oracle failures it is just one more symptom of the broken tree code.
		if len(vios) == 0 {
			hkit.EngineError("the reachable-shape invariant of scope.go is wrong, e.g. %s", s.st.InvBroken[0])
		}
		fmt.Printf("note: %d reachable trees lie outside the shape invariant of the small-scope part, e.g. %s\n", len(s.st.InvBroken), s.st.InvBroken[0])
	}
	// one report per signature, the shortest witness (a history beats a bare tree of the same class)
	sort.SliceStable(vios, func(i, j int) bool {
		if vios[i].Sig != vios[j].Sig {
			return vios[i].Sig < vios[j].Sig
		}
		return vios[i].Kind < vios[j].Kind
	})
	seen := map[string]bool{}
	for _, v := range vios {
		if seen[v.Sig] {
			continue
		}
		seen[v.Sig] = true
		human := v.Msg
		if v.Kind == "history" {
			var hs []string
			for _, st := range v.History {
				hs = append(hs, st.Phase+"["+st.Choice+"]")
			}
			human += " | history: " + strings.Join(hs, " -> ")
		} else {
			human += " | small scope: " + v.Op + " on " + v.Tree.String()
		}
		hkit.Report(propID, v.Sig, map[string]any{"harness": "c11", "violation": v}, human)
	}
	longest, largest := 0, 0
	for i := range s.recs {
		if n := len(parseKey(s.recs[i].key)); n > largest {
			largest = n
		}
	}
	if len(s.recs) > 0 {
		longest = len(s.history(int32(len(s.recs) - 1)))
	}
	samples = append(samples, sc.samples...)
	hkit.Evidence(propID, a.Tier, "model_checking", map[string]any{
		"states": len(s.recs), "transitions": s.st.Transitions, "traces_validated_against_impl": replayed,
		"samples": samples, "exhaustive": true,
		"bounds": map[string]any{"max_nodes_in_tree_at_any_time": b.N, "assets_per_page": fmt.Sprintf("0..%d, or one redirect target", b.Kids),
			"urls": "any URL already in the tree (the seed's included) or a new one, up to renaming", "passes": "unbounded (every kept level deepens the tree, so the node bound bounds the history)"},
		"transitions_per_phase": s.st.PerPhase, "oracle_evaluations": s.st.Checks, "dedupe_calls_by_effect": s.st.Dedupes,
		"finisher_verdicts": s.st.Verdicts, "complete_states": terminal, "longest_history_steps": longest, "largest_tree": largest,
		"small_scope": sc.coverage, "distinct_violation_signatures": len(seen),
		"explanation": "states = distinct (pipeline phase, tree up to URL renaming); every transition is one stage pass executed on a real models.Item tree rebuilt from the state through NewItem/AddChild/SetStatus; traces_validated = complete histories re-run on one continuous real tree with the full oracle and compared with the search's final state",
	}, []string{
		"stage passes are transcribed from preprocessor.preprocess, archiver.archive/worker, postprocessor.postprocessItem/worker and finisher.worker; what the outside world decides (filters, seencheck, HTTP outcome, extracted links, redirect) is an enumerated choice",
		"pkg/models compares URLs only for equality, so trees equal up to a renaming of URLs are one state",
		"ids are unique because the harness, like Zeno (uuid), hands out fresh ids; the uniqueness check can only fail if the tree code duplicates a node",
		"'one node per URL' is read as one non-seed node per URL: DedupeItems skips the seed on purpose (item_dedupe_test.go 'Same URL for Seed and Child')",
		"which duplicate survives is left open; the reference tree follows the real tree's choice and the oracle judges it (no duplicate left, no URL lost)",
	}, hkit.Violations())
	fmt.Printf("C11 %s: N=%d: %d states, %d transitions, %d complete states, %d histories re-run on one tree; small scope: %v; %d violation signature(s)\n",
		a.Tier, b.N, len(s.recs), s.st.Transitions, terminal, replayed, sc.coverage["summary"], len(seen))
	hkit.Exit()
}

func replay(path string) {
	raw, err := os.ReadFile(path)
	if err != nil {
		hkit.EngineError("%v", err)
	}
	var p struct {
		Violation violation `json:"violation"`
	}
	if err := json.Unmarshal(raw, &p); err != nil {
		hkit.EngineError("%v", err)
	}
	v := p.Violation
	var fails []failure
	if v.Kind == "tree" {
		fmt.Printf("tree   %s\nop     %s\n", v.Tree, v.Op)
		w := runTreeCase(v.Tree, v.Op)
		d, _ := dumpReal(w.real)
		fmt.Printf("after  %s\n", toSnap(d))
		fails = w.fails
	} else {
		fmt.Printf("%-30s %-14s    %s\n", "start", "", seedSnap)
		w, ph := runHistory(v.History, func(st step, w *world) {
			d, _ := dumpReal(w.real)
			fmt.Printf("%-30s %-14s -> %s\n", st.Phase, "["+st.Choice+"]", toSnap(d))
		})
		fmt.Printf("ends in phase %q\n", phName[ph])
		fails = w.fails
	}
	hit := false
	for _, f := range fails {
		fmt.Printf("oracle: [sig=%s] %s\n", f.Sig, f.Msg)
		hit = hit || f.Sig == v.Sig
	}
	if !hit {
		fmt.Printf("replay: signature %s did not occur\n", v.Sig)
		os.Exit(0)
	}
	fmt.Printf("VIOLATION property=%s replay=%s\n", propID, path)
	os.Exit(1)
}
