// Harness for C05: no request is ever sent for a URL outside the operator's scope.
//
// Engine E3 (exhaustive input grid): every URL text of a finite grammar product is placed in every tree
// position (seed / redirect target / asset, deeper and with siblings in thorough) under every combination
// of the five scope filters, and run through the REAL preprocess() (NormalizeURL, include/exclude filters,
// regex exclusion, dedupe, local seencheck, request construction) with a configuration produced by the
// REAL config.GenerateCrawlConfig (default exclusions, exclusion file reader). The independent predicate
// outOfScope (run.go) judges the URL of every request that leaves the stage.
//
// One shard = one (filter configuration, tree position) unit over all URL texts.
package main

import (
	"encoding/json"
	"fmt"
	"hash/fnv"
	"io"
	"log/slog"
	"os"
	"path/filepath"
	"regexp"
	"sort"
	"strings"

	"github.com/internetarchive/Zeno/internal/pkg/config"
	"github.com/internetarchive/Zeno/internal/pkg/preprocessor/seencheck"
	"github.com/internetarchive/Zeno/internal/verif/vrt/hkit"
)

const propID = "C05"

type unit struct {
	F Filter
	P Position
}

func units(tier string) []unit {
	var us []unit
	for _, f := range filters() { // simplest configuration first: the first failing case per signature is the minimal one
		for _, p := range positions(tier) {
			us = append(us, unit{f, p})
		}
	}
	return us
}

type failure struct {
	Sig   string `json:"sig"`
	Why   string `json:"why"`
	URL   string `json:"request_url"`
	Case  Case   `json:"case"`
	Count int    `json:"count"`
}

type shardOut struct {
	Unit      string
	Evals     int // executions of preprocess() on a tree holding the tested text
	Absolute  int
	Relative  int
	Requests  int // requests that left the stage and were judged
	NoRequest int // evaluations in which the tested text produced no request
	Skipped   int // position not constructible (node above not in scope under this configuration)
	Distinct  int // distinct (request URL) leaving the stage in this unit
	Panics    int
	PanicEx   string
	Failures  []*failure
	Notes     map[string]int
	NoteEx    map[string]string
	Samples   []map[string]any
	CtlFailed string         // the in-scope control URL did not come out with a request
	Hosts     map[string]int // scheme://host of every judged request -> count
	WallS     float64
}

// setup installs the filter configuration the way Zeno does at start-up and opens a private seen-store.
func setup(f Filter) []*regexp.Regexp { return setupFiles(f, nil) }

// setupFiles is setup with the exclusion file(s) given by the caller (paths or http URLs).
func setupFiles(f Filter, exFiles []string) []*regexp.Regexp {
	slog.SetDefault(slog.New(slog.NewTextHandler(io.Discard, nil)))
	tmp := os.Getenv("VERIF_TMP")
	if tmp == "" {
		tmp = "/dev/shm"
	}
	dir, err := os.MkdirTemp(tmp, "c05-")
	if err != nil {
		hkit.EngineError("%v", err)
	}
	cfg := &config.Config{Job: "c05", UserAgent: "verif-c05", NoStdoutLogging: true, NoStderrLogging: true, NoFileLogging: true,
		ExcludeHosts: f.ExHost, ExcludeString: f.ExStr, IncludeHosts: f.InHost, IncludeString: f.InStr}
	if exFiles != nil {
		cfg.ExclusionFile = exFiles
	} else if len(f.Regex) > 0 {
		file := filepath.Join(dir, "exclusions.txt")
		if err := os.WriteFile(file, []byte(strings.Join(f.Regex, "\n")+"\n"), 0o644); err != nil {
			hkit.EngineError("%v", err)
		}
		cfg.ExclusionFile = []string{file}
	}
	config.VerifSet(cfg)
	if err := config.GenerateCrawlConfig(); err != nil {
		if refuseOK {
			os.RemoveAll(dir)
			return nil
		}
		hkit.EngineError("GenerateCrawlConfig: %v", err)
	}
	if err := seencheck.Start(dir); err != nil {
		hkit.EngineError("seencheck.Start: %v", err)
	}
	cleanup = func() { seencheck.Close(); os.RemoveAll(dir) }
	var res []*regexp.Regexp // the oracle compiles its own copies
	for _, r := range f.Regex {
		res = append(res, regexp.MustCompile(r))
	}
	return res
}

var cleanup = func() {}

// refuseOK: a configuration error is an accepted outcome of the next setupFiles call (fault layouts)
var refuseOK bool

func runUnit(tier string, u unit) *shardOut {
	res := setup(u.F)
	defer cleanup()
	out := &shardOut{Unit: u.P.Name + " | " + u.F.Name(), Notes: map[string]int{}, NoteEx: map[string]string{}, Hosts: map[string]int{}}
	bySig := map[string]*failure{}
	distinct := map[uint64]struct{}{}
	// control: an in-scope URL must come out with a request, before and after the grid (else the run is vacuous)
	control := func() {
		c := &Case{Pos: u.P, Text: ctlURL, Filter: u.F}
		if u.P.Edges != "" {
			c.Parent = pageURL
		}
		r := runCase(c, res, false)
		ok := false
		for _, s := range r.Sent {
			ok = ok || s == ctlURL
		}
		if !ok || len(r.Bad) > 0 {
			out.CtlFailed = fmt.Sprintf("unit %q: control %s produced requests %q %v %s", out.Unit, ctlURL, r.Sent, r.Bad, r.Panic)
		}
	}
	control()
	out.Absolute, out.Relative = forEachText(tier, u.P, func(parent, text string, tok Tok) {
		c := &Case{Pos: u.P, Parent: parent, Text: text, Filter: u.F, Tok: tok}
		r := runCase(c, res, false)
		out.Evals++
		switch {
		case strings.HasPrefix(r.Panic, "engine:"):
			hkit.EngineError("%s (case %+v)", r.Panic, *c)
		case r.Panic != "":
			out.Panics++
			if out.PanicEx == "" {
				out.PanicEx = fmt.Sprintf("%q: %s", text, r.Panic)
			}
			return
		case r.Skipped != "":
			out.Skipped++
			return
		}
		tested := len(r.Sent)
		if u.P.Sib != 0 {
			tested-- // the sibling
		}
		if tested <= 0 {
			out.NoRequest++
		}
		out.Requests += len(r.Sent)
		for _, s := range r.Sent {
			h := fnv.New64a()
			h.Write([]byte(s))
			distinct[h.Sum64()] = struct{}{}
			if i := strings.Index(s, "://"); i > 0 {
				out.Hosts[strings.SplitN(s[i+3:], "/", 2)[0]]++
			}
		}
		if len(out.Samples) < 2 || (len(out.Samples) < 4 && len(r.Sent) > 0 && out.Evals > 2000) {
			out.Samples = append(out.Samples, map[string]any{"position": u.P.Name, "filter": u.F.Name(), "parent": parent, "text": text, "requests": r.Sent})
		}
		for _, b := range r.Bad {
			p := strings.SplitN(b, "\t", 3)
			why, reqURL, sig := p[0], p[1], p[2]
			if f := bySig[sig]; f != nil {
				f.Count++
				continue
			}
			f := &failure{Sig: sig, Why: why, URL: reqURL, Case: *c, Count: 1}
			bySig[sig] = f
			out.Failures = append(out.Failures, f)
		}
		for _, n := range r.Notes {
			note, reqURL, _ := strings.Cut(n, "\t")
			out.Notes[note]++
			if out.NoteEx[note] == "" {
				out.NoteEx[note] = fmt.Sprintf("%s %q -> %s", u.P.Name, text, reqURL)
			}
		}
	})
	control()
	out.Distinct = len(distinct)
	out.WallS = hkit.Wall()
	return out
}

func main() {
	a := hkit.ParseArgs()
	if a.Replay != "" {
		replay(a.Replay)
		return
	}
	us := units(a.Tier)
	if a.Of > 1 {
		hkit.EmitShardResult(runUnit(a.Tier, us[a.Shard]))
		return
	}
	outs := hkit.Shards(len(us))
	tot := shardOut{Notes: map[string]int{}, NoteEx: map[string]string{}, Hosts: map[string]int{}}
	var per []map[string]any
	var samples []any
	fails := map[string]*failure{}
	var order []string
	for _, b := range outs {
		var r shardOut
		hkit.ShardResult(b, &r)
		tot.Evals += r.Evals
		tot.Requests += r.Requests
		tot.NoRequest += r.NoRequest
		tot.Skipped += r.Skipped
		tot.Distinct += r.Distinct // units are disjoint in (position, configuration), so the sum is exact
		tot.Panics += r.Panics
		if r.CtlFailed != "" && tot.CtlFailed == "" {
			tot.CtlFailed = r.CtlFailed
		}
		if tot.PanicEx == "" {
			tot.PanicEx = r.PanicEx
		}
		for k, v := range r.Hosts {
			tot.Hosts[k] += v
		}
		for k, v := range r.Notes {
			tot.Notes[k] += v
			if tot.NoteEx[k] == "" {
				tot.NoteEx[k] = r.NoteEx[k]
			}
		}
		per = append(per, map[string]any{"unit": r.Unit, "evaluations": r.Evals, "absolute_texts": r.Absolute, "relative_texts": r.Relative,
			"requests_judged": r.Requests, "no_request": r.NoRequest, "skipped": r.Skipped, "distinct_request_urls": r.Distinct, "wall_s": r.WallS})
		if len(samples) < 40 {
			for _, s := range r.Samples {
				samples = append(samples, s)
			}
		}
		for _, f := range r.Failures {
			if g := fails[f.Sig]; g != nil {
				g.Count += f.Count
				continue
			}
			fails[f.Sig] = f
			order = append(order, f.Sig)
		}
	}
	lay := layoutGrid(nil)
	for _, f := range lay.Failures {
		if g := fails[f.Sig]; g != nil {
			g.Count += f.Count
			continue
		}
		fails[f.Sig] = f
		order = append(order, f.Sig)
	}
	// identical signatures are reported once, with the first (simplest configuration) failing case
	for _, sig := range order {
		f := fails[sig]
		hkit.Report(propID, sig, map[string]any{"engine": "grid", "harness": "c05", "sig": sig, "why": f.Why, "request_url": f.URL, "case": f.Case},
			fmt.Sprintf("%s: text %q (parent %q) under filters [%s] left the preprocessor with a request for %s, which is out of scope: %s (%d evaluations with this signature)",
				f.Case.Pos.Name, f.Case.Text, f.Case.Parent, f.Case.Filter.Name(), f.URL, f.Why, f.Count))
	}
	// A refused in-scope control is not a C05 violation (the property only forbids requests), but a unit in
	// which it happens proves little; without any violation to report the run is declared void, not passed.
	if hkit.Violations() == 0 && (tot.CtlFailed != "" || tot.Requests == 0 || tot.Distinct < 2) {
		hkit.EngineError("vacuous run: %d requests judged; %s", tot.Requests, tot.CtlFailed)
	}
	alpha := func(al alphabet) map[string]any {
		return map[string]any{"scheme": al.scheme, "userinfo": al.user, "host": al.host, "port": al.port, "path": al.path, "query": al.query, "wrapper": al.wrap}
	}
	products := map[string]any{"quick_product(all positions)": alpha(quickAlpha)}
	if a.Tier == "thorough" {
		products["host_focus_product(seed,redirect,asset)"] = alpha(hostFocus)
		products["text_focus_product(seed,redirect,asset)"] = alpha(textFocus)
	}
	var pn []string
	for _, p := range positions(a.Tier) {
		pn = append(pn, p.Name)
	}
	notes := map[string]any{}
	for _, k := range hkit.SortedKeys(tot.Notes) {
		notes[k] = map[string]any{"requests": tot.Notes[k], "example": tot.NoteEx[k]}
	}
	sigs := append([]string{}, order...)
	sort.Strings(sigs)
	hkit.Evidence(propID, a.Tier, "exploration", map[string]any{
		"evaluations": tot.Evals, "distinct_nontrivial": tot.Distinct,
		"rule":    "distinct (tree position, filter configuration, URL of a request that left the real preprocess()) triples judged by the scope predicate",
		"samples": samples, "exhaustive": true,
		"requests_judged": tot.Requests, "evaluations_without_request": tot.NoRequest,
		"skipped_parent_out_of_scope": tot.Skipped, "panics_in_preprocess": tot.Panics, "panic_example": tot.PanicEx,
		"units": len(us), "filter_configurations": 32, "positions": pn,
		"exclusion_file_layouts":                  lay.Layouts,
		"exclusion_file_layout_cases":             lay.Cases,
		"exclusion_file_broken_downloads_refused": lay.Refused,
		"exclusion_file_layout_domain":            "n regexes (1..3) x {one file, split over two files at every point} x {LF, CRLF} x {final newline or not} x {local path, http URL}, each loaded by the real GenerateCrawlConfig; a seed matching only the i-th regex must get no request; plus 6 http downloads that break after 0..n-1 complete lines (the whole length announced): the configuration is refused or every regex is in force",
		"alphabets":                               products, "relative_forms": relForms, "relative_wrappers": textFocus.wrap, "relative_parents": relParents, "filters": filters()[31],
		"authorities_of_judged_requests": tot.Hosts, "literal_readings_not_alarmed": notes, "failing_signatures": sigs, "per_unit": per,
	}, []string{
		"every request Zeno sends for crawled content is the one preprocess() attaches: archiver.archive sends item.GetURL().GetRequest() unchanged and the WARC client does not follow redirects itself (FollowRedirects unset); read in the code, not executed here (the `world` end-to-end engine of DESIGN.md does not exist in /verif/engine)",
		"'matches' is substring for host/string filters and RE2 search for exclusion-file lines, as the flags are documented; host comparison case-insensitive",
		"literal reading: only the exact host names localhost / 127.0.0.1 / dot-less are forbidden, and only the literal text of the request URL is compared with exclude-string",
		"filter values themselves are fixed ASCII lower-case strings (out.example, in.example:8080 - an entry with a port matches host:port -, secret, ^https?://[^/]+/a/, in.example, /a/); every on/off combination is run",
		"the local seen-store is emptied of the case's URLs after every case so that cases are independent",
	}, hkit.Violations())
	fmt.Printf("C05 %s: %d evaluations (%d units), %d requests judged, %d distinct (position, filters, request URL), %d failing signatures, %d panics\n",
		a.Tier, tot.Evals, len(us), tot.Requests, tot.Distinct, len(order), tot.Panics)
	hkit.Exit()
}

func replay(path string) {
	b, err := os.ReadFile(path)
	if err != nil {
		hkit.EngineError("%v", err)
	}
	var p struct {
		Sig  string `json:"sig"`
		Case Case   `json:"case"`
	}
	if err := json.Unmarshal(b, &p); err != nil {
		hkit.EngineError("%v", err)
	}
	if p.Case.Layout != nil {
		lo := layoutGrid(p.Case.Layout)
		for _, f := range lo.Failures {
			fmt.Printf("  %s: request for %s: %s\n", f.Sig, f.URL, f.Why)
		}
		if len(lo.Failures) == 0 {
			fmt.Println("replay: no violation")
			os.Exit(0)
		}
		fmt.Printf("VIOLATION property=%s replay=%s\n", propID, path)
		os.Exit(1)
	}
	res := setup(p.Case.Filter)
	defer cleanup()
	c := config.Get()
	fmt.Printf("replay %s\n  position=%s parent=%q text=%q\n  effective filters: exclude-host=%v exclude-string=%v exclusion-regexes=%v include-host=%v include-string=%v\n",
		p.Sig, p.Case.Pos.Name, p.Case.Parent, p.Case.Text, c.ExcludeHosts, c.ExcludeString, c.ExclusionRegexes, c.IncludeHosts, c.IncludeString)
	r := runCase(&p.Case, res, true)
	for _, t := range r.Trace {
		fmt.Println("  " + t)
	}
	if r.Panic != "" {
		fmt.Println("  panic:", r.Panic)
	}
	if r.Skipped != "" {
		fmt.Println("  skipped:", r.Skipped)
	}
	fmt.Printf("  requests leaving the stage: %q\n", r.Sent)
	if len(r.Bad) == 0 {
		fmt.Println("replay: no violation")
		cleanup()
		os.Exit(0)
	}
	for _, bad := range r.Bad {
		p := strings.SplitN(bad, "\t", 3)
		fmt.Printf("  out of scope: %s (%s) sig=%s\n", p[1], p[0], p[2])
	}
	fmt.Printf("VIOLATION property=%s replay=%s\n", propID, path)
	cleanup()
	os.Exit(1)
}
