package main

import (
	"fmt"
	"net"
	"net/http"
	"os"
	"path/filepath"
	"strings"

	"github.com/internetarchive/Zeno/internal/verif/vrt/hkit"
)

// The operator's exclusion regexes reach Zeno through files (local or fetched over http) whose
// layout the operator does not control byte by byte. layoutGrid enumerates how n regexes can be
// delivered - {one file, split over two files at every point} x {LF, CRLF} x {final newline or not}
// x {local, http} - loads each through the real GenerateCrawlConfig and requires, through the real
// preprocess(), that a URL matching only the i-th regex gets no request, for every i.

type layout struct {
	N      int    `json:"regexes"`
	Split  int    `json:"split_after"` // 0 = one file, k = first k lines in file 1, the rest in file 2
	EOL    string `json:"eol"`
	Final  bool   `json:"final_newline"`
	Remote bool   `json:"over_http"`
	// Cut > 0 (http only): the server announces the whole file and hangs up after Cut-1 complete lines: the crawl must
	// either refuse to start or have every regex of the file in force - never start with a part of the list
	Cut int `json:"download_breaks_after_lines_plus_one,omitempty"`
}

func (l layout) name() string {
	if l.Cut > 0 {
		return fmt.Sprintf("n=%d split=%d eol=%q final-newline=%v http=%v download breaks after %d lines", l.N, l.Split, l.EOL, l.Final, l.Remote, l.Cut-1)
	}
	return fmt.Sprintf("n=%d split=%d eol=%q final-newline=%v http=%v", l.N, l.Split, l.EOL, l.Final, l.Remote)
}

func layouts() []layout {
	var out []layout
	for n := 1; n <= 3; n++ {
		for split := 0; split < n; split++ {
			for _, eol := range []string{"\n", "\r\n"} {
				for _, final := range []bool{true, false} {
					for _, remote := range []bool{false, true} {
						out = append(out, layout{N: n, Split: split, EOL: eol, Final: final, Remote: remote})
					}
				}
			}
		}
	}
	// a download that breaks: one file over http, the connection closed after 0..n-1 complete lines
	for n := 1; n <= 3; n++ {
		for cut := 1; cut <= n; cut++ {
			out = append(out, layout{N: n, EOL: "\n", Final: true, Remote: true, Cut: cut})
		}
	}
	return out
}

func layoutRegex(i int) string { return fmt.Sprintf(`^https?://[^/]+/zone%d/`, i) }
func layoutURL(i int) string   { return fmt.Sprintf("http://in.example/zone%d/x.png", i) }

type layoutOut struct {
	Layouts, Cases int
	Refused        int // layouts with a broken download for which the configuration was refused
	Failures       []*failure
}

// materialise writes the exclusion file(s) of a layout and returns the filter the oracle uses and
// the paths / URLs given to --exclusion-file.
func (l layout) materialise(dir string, li int, addr string) (Filter, []string) {
	var lines []string
	for i := 0; i < l.N; i++ {
		lines = append(lines, layoutRegex(i))
	}
	var files [][]string
	if l.Split == 0 {
		files = [][]string{lines}
	} else {
		files = [][]string{lines[:l.Split], lines[l.Split:]}
	}
	var paths []string
	for fi, fl := range files {
		body := strings.Join(fl, l.EOL)
		if l.Final {
			body += l.EOL
		}
		name := fmt.Sprintf("ex-%d-%d.txt", li, fi)
		if err := os.WriteFile(filepath.Join(dir, name), []byte(body), 0o644); err != nil {
			hkit.EngineError("%v", err)
		}
		if l.Remote && l.Cut > 0 {
			paths = append(paths, fmt.Sprintf("http://%s/cut/%d/%s", addr, l.Cut-1, name))
		} else if l.Remote {
			paths = append(paths, "http://"+addr+"/"+name)
		} else {
			paths = append(paths, filepath.Join(dir, name))
		}
	}
	return Filter{Regex: lines}, paths
}

// layoutGrid runs every layout (or only the given one: replay).
func layoutGrid(only *layout) (lo layoutOut) {
	tmp := os.Getenv("VERIF_TMP")
	if tmp == "" {
		tmp = "/dev/shm"
	}
	dir, err := os.MkdirTemp(tmp, "c05-layout-")
	if err != nil {
		hkit.EngineError("%v", err)
	}
	defer os.RemoveAll(dir)
	// the http delivery: a loopback server that serves the files of dir with a Content-Length
	ln, err := net.Listen("tcp", "127.0.0.1:0")
	if err != nil {
		hkit.EngineError("%v", err)
	}
	files := http.FileServer(http.Dir(dir))
	srv := &http.Server{Handler: http.HandlerFunc(func(w http.ResponseWriter, r *http.Request) {
		var keep int
		var name string
		if n, _ := fmt.Sscanf(r.URL.Path, "/cut/%d/%s", &keep, &name); n != 2 {
			files.ServeHTTP(w, r)
			return
		}
		b, err := os.ReadFile(filepath.Join(dir, name))
		if err != nil {
			http.NotFound(w, r)
			return
		}
		part := strings.Join(strings.SplitAfter(string(b), "\n")[:keep], "")
		conn, buf, err := w.(http.Hijacker).Hijack()
		if err != nil {
			return
		}
		fmt.Fprintf(buf, "HTTP/1.1 200 OK\r\nContent-Type: text/plain\r\nContent-Length: %d\r\n\r\n%s", len(b), part)
		buf.Flush()
		conn.Close()
	})}
	go srv.Serve(ln)
	defer srv.Close()
	for li, l := range layouts() {
		if only != nil && *only != l {
			continue
		}
		f, paths := l.materialise(dir, li, ln.Addr().String())
		if l.Cut > 0 {
			refuseOK = true
		}
		res := setupFiles(f, paths)
		refuseOK = false
		lo.Layouts++
		if res == nil && l.Cut > 0 {
			lo.Refused++ // the crawl refuses to start with a partly downloaded list: fine
			continue
		}
		ctl := runCase(&Case{Pos: Position{"seed", "", 0}, Text: ctlURL, Filter: f}, res, false)
		if len(ctl.Sent) != 1 || len(ctl.Bad) > 0 {
			cleanup()
			hkit.EngineError("layout %s: control %s produced %q %v %s", l.name(), ctlURL, ctl.Sent, ctl.Bad, ctl.Panic)
		}
		for i := 0; i < l.N; i++ {
			ll := l
			c := &Case{Pos: Position{"seed", "", 0}, Text: layoutURL(i), Filter: f, Layout: &ll}
			r := runCase(c, res, false)
			lo.Cases++
			for _, b := range r.Bad {
				p := strings.SplitN(b, "\t", 3)
				last := "inner"
				if i == l.N-1 || (l.Split > 0 && i == l.Split-1) {
					last = "last-of-its-file"
				}
				sig := fmt.Sprintf("exclusion-file-line-not-in-force:%s:final-newline=%v", last, l.Final)
				lo.Failures = append(lo.Failures, &failure{Sig: sig, Why: p[0] + " (exclusion file layout: " + l.name() + fmt.Sprintf(", regex %d of %d)", i+1, l.N), URL: p[1], Case: *c, Count: 1})
			}
		}
		cleanup()
	}
	if only == nil {
		emptyElements(&lo)
	}
	return
}

// emptyElements: a filter list with an empty element in it (a trailing or doubled comma on the command line, an
// empty entry in the configuration file). Whatever the empty element itself is taken to mean, the elements behind it -
// the operator's and the built-in archive.org / archive-it.org, which Zeno appends last - stay in force.
func emptyElements(lo *layoutOut) {
	for _, f := range []Filter{
		{ExHost: []string{"blocked.invalid", "", "out.example"}},
		{ExStr: []string{"nomatch-string", "", "secret"}},
		{ExHost: []string{""}},
	} {
		res := setupFiles(f, nil)
		for _, u := range []string{"http://out.example/x.png", "http://web.archive.org/web/2020/x", "https://archive-it.org/home", "http://in.example/secret/z", "http://in.example/a/b?u=secret"} {
			c := &Case{Pos: Position{"seed", "", 0}, Text: u, Filter: f}
			r := runCase(c, res, false)
			lo.Cases++
			for _, b := range r.Bad {
				p := strings.SplitN(b, "\t", 3)
				lo.Failures = append(lo.Failures, &failure{Sig: "filter-list-with-an-empty-element:later-element-not-in-force", Why: p[0] + " (filter list with an empty element: " + f.Name() + ")", URL: p[1], Case: *c, Count: 1})
			}
		}
		cleanup()
	}
}
