package main

import (
	"fmt"
	"net"
	"net/url"
	"regexp"
	"strings"

	"github.com/internetarchive/Zeno/internal/pkg/preprocessor"
	"github.com/internetarchive/Zeno/internal/pkg/preprocessor/seencheck"
	"github.com/internetarchive/Zeno/pkg/models"
)

// Case is one grid point; it is also the replay artefact.
type Case struct {
	Pos    Position `json:"position"`
	Parent string   `json:"parent"` // URL of the node directly above the tested one ("" for a seed)
	Text   string   `json:"text"`   // URL text exactly as the seed list / Location header / extractor delivers it
	Filter Filter   `json:"filter"`
	Tok    Tok      `json:"tokens"`
	Layout *layout  `json:"exclusion_file_layout,omitempty"` // set by the exclusion-file delivery grid only
}

// ---------------------------------------------------------------- the oracle

// alwaysExcluded: "archive.org and archive-it.org are always excluded" (property text).
var alwaysExcluded = []string{"archive.org", "archive-it.org"}

// outOfScope is the C05 predicate, written from the property text alone and applied to the URL of a
// request that LEFT the preprocessor (what the archiver hands to the HTTP client unchanged). It returns
// "" when the URL is inside the operator's scope, else the clause of the property that it breaks.
// "Matches" is read as Zeno documents the flags: substring for hosts and strings, RE2 search for the
// exclusion file. Host comparison is case-insensitive (host names are); nothing else is folded: a
// percent-encoded spelling of an excluded string or "localhost." are NOT alarmed (literal reading),
// they are only counted in the evidence notes.
func outOfScope(u *url.URL, f *Filter, res []*regexp.Regexp) string {
	// "one whose scheme is not http or https"
	if s := strings.ToLower(u.Scheme); s != "http" && s != "https" {
		return "scheme"
	}
	// "one whose host is localhost, 127.0.0.1 or has no dot"
	hn := strings.ToLower(u.Hostname())
	switch {
	case hn == "localhost":
		return "host-localhost"
	case hn == "127.0.0.1":
		return "host-127.0.0.1"
	case !strings.Contains(hn, "."):
		return "host-no-dot"
	}
	// "one whose host or text matches --exclude-host, --exclude-string or an exclusion-file regex"
	host, text := strings.ToLower(u.Host), u.String()
	for _, e := range append(append([]string{}, alwaysExcluded...), f.ExHost...) {
		if strings.Contains(host, strings.ToLower(e)) {
			return "exclude-host=" + e
		}
	}
	for _, s := range f.ExStr {
		if strings.Contains(text, s) {
			return "exclude-string=" + s
		}
	}
	for _, re := range res {
		if re.MatchString(text) {
			return "exclusion-regex"
		}
	}
	// "one that matches none of --include-host/--include-string when any is given"
	if len(f.InHost)+len(f.InStr) > 0 {
		ok := false
		for _, e := range f.InHost {
			ok = ok || strings.Contains(host, strings.ToLower(e))
		}
		for _, s := range f.InStr {
			ok = ok || strings.Contains(text, s)
		}
		if !ok {
			return "include-miss"
		}
	}
	return ""
}

// literalNote classifies in-scope requests that a stricter (non-literal) reading would question.
func literalNote(u *url.URL, f *Filter) string {
	hn := strings.TrimRight(strings.ToLower(u.Hostname()), ".")
	if hn != strings.ToLower(u.Hostname()) && (hn == "localhost" || hn == "127.0.0.1" || !strings.Contains(hn, ".")) {
		return "trailing-dot-spelling-of-forbidden-host"
	}
	if ip := net.ParseIP(hn); ip != nil && ip.IsLoopback() {
		return "loopback-address-other-than-127.0.0.1"
	}
	if dec, err := url.PathUnescape(u.String()); err == nil {
		for _, s := range f.ExStr {
			if strings.Contains(dec, s) {
				return "percent-encoded-spelling-of-exclude-string"
			}
		}
	}
	return ""
}

// ---------------------------------------------------------------- one execution on the real code

type Result struct {
	Sent    []string // URLs of the requests attached to the nodes the archiver would send, last step
	Bad     []string // "reason\turl\tsignature" for each of them that the oracle rejects
	Notes   []string // "note\turl"
	Skipped string   // non-empty: the tree position could not be built (node above is not fetched)
	Panic   string
	Trace   []string
}

// sameHostSibling is a sibling asset on the host the tested text names (or, for a relative text, on
// its parent's host) whose path holds the include-string and none of the excluded strings: whether
// it is in scope depends on the configuration, the oracle judges it like every other request.
func sameHostSibling(c *Case) string {
	h := c.Tok.Host
	if h == "" {
		if u, err := url.Parse(c.Parent); err == nil {
			h = u.Host
		}
	}
	if h == "" || strings.ContainsAny(h, "[] %") {
		h = "in.example"
	}
	return "http://" + h + "/x/a/sib.png"
}

var idSeq int

func newItem(raw string) *models.Item {
	idSeq++
	return models.NewItem(fmt.Sprintf("n%d", idSeq), &models.URL{Raw: raw}, "")
}

// wouldSend repeats the archiver's selection (archiver.archive): nodes at the deepest level whose status
// is ItemPreProcessed; it sends exactly item.GetURL().GetRequest().
func wouldSend(root *models.Item) []*models.Item {
	nodes, err := root.GetNodesAtLevel(root.GetMaxDepth())
	if err != nil {
		panic(err)
	}
	var out []*models.Item
	for _, n := range nodes {
		if n.GetStatus() == models.ItemPreProcessed && n.GetURL().GetRequest() != nil {
			out = append(out, n)
		}
	}
	return out
}

func runCase(c *Case, res []*regexp.Regexp, trace bool) (r Result) {
	chain := []string{c.Text}
	switch len(c.Pos.Edges) {
	case 1:
		chain = []string{c.Parent, c.Text}
	case 2:
		chain = []string{rootURL, c.Parent, c.Text}
	}
	root := newItem(chain[0])
	// the sources hand the reactor a seed they have parsed (hq/consumer.go, lq/consumer.go); a seed whose
	// text does not parse goes to the finisher at once
	if err := root.GetURL().Parse(); err != nil {
		r.Skipped = "the source discards the seed (it does not parse): " + chain[0]
		return
	}
	cur := root
	var forget []string
	var sent []*models.Item
	var uncle *models.Item
	defer func() {
		// un-see every URL this case recorded, so that cases stay independent
		present := seencheck.VerifC05Forget(forget)
		if r.Panic == "" && present < len(r.Sent) {
			r.Panic = fmt.Sprintf("engine: %d requests left the stage but only %d of their URLs were in the seen-store", len(r.Sent), present)
		}
	}()
	defer func() {
		if p := recover(); p != nil {
			r.Panic = fmt.Sprint(p)
		}
	}()
	for step := 0; ; step++ {
		if err := root.CheckConsistency(); err != nil {
			panic("engine: harness built an inconsistent tree: " + err.Error())
		}
		preprocessor.VerifC05Preprocess(root)
		root.Traverse(func(n *models.Item) {
			if n.GetURL().GetParsed() != nil {
				forget = append(forget, n.GetURL().String())
			}
		})
		sent = wouldSend(root)
		if trace {
			root.Traverse(func(n *models.Item) {
				req := "-"
				if n.GetURL().GetRequest() != nil {
					req = n.GetURL().GetRequest().URL.String()
				}
				r.Trace = append(r.Trace, fmt.Sprintf("step %d: depth=%d status=%s raw=%q request=%s", step, n.GetDepth(), n.GetStatus(), n.GetURL().Raw, req))
			})
		}
		if step == len(c.Pos.Edges) {
			break
		}
		fetched := false
		for _, n := range sent {
			fetched = fetched || n == cur
		}
		if !fetched {
			r.Skipped = "node above is not fetched under this configuration: " + chain[step]
			return
		}
		// what archiver + postprocessor do to the node: fetched, then it gets a redirect target / assets
		cur.SetStatus(models.ItemArchived)
		child := newItem(chain[step+1])
		kind, last := models.ItemGotChildren, step+1 == len(c.Pos.Edges)
		if c.Pos.Edges[step] == 'R' {
			kind = models.ItemGotRedirected
		}
		add := func(n *models.Item) {
			if err := cur.AddChild(n, kind); err != nil {
				panic("engine: " + err.Error())
			}
		}
		if c.Pos.Sib == 4 && !last {
			// two nodes at this level, each of which will have a child: the level below hangs off two parents,
			// the tested node off the second one
			uncle = newItem(uncleURL)
			add(uncle)
		}
		if c.Pos.Sib == 4 && last && uncle != nil {
			uncle.SetStatus(models.ItemArchived)
			if err := uncle.AddChild(newItem(sibURL), models.ItemGotChildren); err != nil {
				panic("engine: " + err.Error())
			}
		}
		if last && c.Pos.Sib == 1 {
			add(newItem(sibURL))
		}
		if last && c.Pos.Sib == 3 {
			add(newItem(sameHostSibling(c)))
		}
		add(child)
		if last && c.Pos.Sib == 2 {
			add(newItem(sibURL))
		}
		cur = child
	}
	for _, n := range sent {
		u := n.GetURL().GetRequest().URL
		r.Sent = append(r.Sent, u.String())
		if fs := foreignScheme(c.Text); fs != "" && n == cur {
			// the request is for an http(s) URL, but the text it was made from names a URI of another scheme
			r.Bad = append(r.Bad, "scheme\t"+u.String()+"\t"+signature(c, "scheme", u)+":text-names-"+fs)
		} else if why := outOfScope(u, &c.Filter, res); why != "" {
			r.Bad = append(r.Bad, why+"\t"+u.String()+"\t"+signature(c, why, u))
		} else if note := literalNote(u, &c.Filter); note != "" {
			r.Notes = append(r.Notes, note+"\t"+u.String())
		}
	}
	return
}

// signature: position + broken clause + what carries the clause: the generator's host token for host
// clauses, its scheme token for the scheme clause, and for exclude-string the component of the request URL
// that holds the string; regex and include clauses need no further detail.
func signature(c *Case, why string, u *url.URL) string {
	feat := ""
	switch {
	case why == "scheme":
		feat = c.Tok.Scheme
		if c.Tok.Scheme == "rel" {
			feat = c.Tok.PQ
		}
	case strings.HasPrefix(why, "host-") || strings.HasPrefix(why, "exclude-host"):
		feat = c.Tok.Host
	case strings.HasPrefix(why, "exclude-string="):
		x := strings.TrimPrefix(why, "exclude-string=")
		switch {
		case strings.Contains(u.EscapedPath(), x):
			feat = "in-path"
		case strings.Contains(u.RawQuery, x):
			feat = "in-query"
		case strings.Contains(u.User.String(), x):
			feat = "in-userinfo"
		default:
			feat = "elsewhere"
		}
	}
	s := c.Pos.Name + ":" + why
	if feat != "" {
		s += ":" + feat
	}
	return strings.NewReplacer(" ", "%20", "\t", "%09").Replace(s)
}
