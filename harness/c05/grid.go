package main

import "strings"

// Filter is one operator scope configuration (the five filter flags of the property).
type Filter struct {
	ExHost []string `json:"exclude_host"`
	ExStr  []string `json:"exclude_string"`
	Regex  []string `json:"exclusion_file_regex"`
	InHost []string `json:"include_host"`
	InStr  []string `json:"include_string"`
}

func (f Filter) Name() string {
	var p []string
	add := func(k string, v []string) {
		if len(v) > 0 {
			p = append(p, k+"="+strings.Join(v, ","))
		}
	}
	add("xh", f.ExHost)
	add("xs", f.ExStr)
	add("xr", f.Regex)
	add("ih", f.InHost)
	add("is", f.InStr)
	if len(p) == 0 {
		return "none"
	}
	return strings.Join(p, ";")
}

// filters: every combination of the five filter kinds switched on or off = 32 configurations. Each kind
// carries two values, a decoy that matches nothing in the grid first and the effective one second, so
// that a filter loop that stops after its first element is noticed (archive.org and archive-it.org are
// appended by Zeno's own GenerateCrawlConfig, after these).
func filters() []Filter {
	var fs []Filter
	for m := 0; m < 32; m++ {
		var f Filter
		if m&1 != 0 {
			f.ExHost = []string{"blocked.invalid", "out.example", "in.example:8080"} // the last one: one service of a machine excluded by host:port
		}
		if m&2 != 0 {
			f.ExStr = []string{"nomatch-string", "secret"}
		}
		if m&4 != 0 {
			f.Regex = []string{`^gopher://never`, `^https?://[^/]+/a/`}
		}
		if m&8 != 0 {
			f.InHost = []string{"allowed.invalid", "in.example"}
		}
		if m&16 != 0 {
			f.InStr = []string{"/nomatch/", "/a/"}
		}
		fs = append(fs, f)
	}
	return fs
}

// Position of the URL under test in the item tree. Edges lead from the seed to the tested node:
// 'R' = redirect target (parent is ItemGotRedirected), 'A' = asset (parent is ItemGotChildren).
type Position struct {
	Name  string
	Edges string
	Sib   int // 1: an in-scope sibling asset is added before the tested node, 2: after it, 3: before it and on the tested URL's own host (in scope only through its path), 4: the tested node hangs off the second of two parents of its level
}

func positions(tier string) []Position {
	ps := []Position{{"seed", "", 0}, {"redirect", "R", 0}, {"asset", "A", 0}, {"asset+same-host-sibling-before", "A", 3}, {"asset-of-the-second-parent", "AA", 4}}
	if tier == "thorough" {
		ps = append(ps, Position{"redirect>asset", "RA", 0}, Position{"asset>redirect", "AR", 0}, Position{"asset>asset", "AA", 0},
			Position{"asset+sibling-before", "A", 1}, Position{"asset+sibling-after", "A", 2}, Position{"redirect-of-the-second-parent", "AR", 4})
	}
	return ps
}

// Fixed in-scope URLs (in scope under all 32 filter configurations) used for the nodes above the tested one.
const (
	rootURL  = "http://in.example/x/a/root.html"
	pageURL  = "http://in.example/x/a/p.html"
	sibURL   = "http://in.example/x/a/sib.png"
	uncleURL = "http://in.example/x/a/first.css" // the first of two parents at depth 1
	ctlURL   = "http://in.example/x/a/ctl.png"   // control: must always come out with a request
)

// parents of relative references; one that is not in scope under a configuration is skipped there
// (decided by running it through the real preprocess as well as through the oracle).
var relParents = []string{pageURL, "https://in.example:8080/x/a/", "http://in.example/a/page.html", "http://in.example/x/a/p.html?u=1"}

// Tok names the generator tokens a text was built from; used for failure signatures.
type Tok struct{ Scheme, Host, PQ string }

type alphabet struct{ scheme, user, host, port, path, query, wrap []string }

var quickAlpha = alphabet{
	scheme: []string{"http://", "https://", "HTTP://", "", "//", "ftp://", "javascript:", "data:"},
	user:   []string{"", "u@", "archive.org@"},
	host: []string{"in.example", "out.example", "IN.example", "web.archive.org", "archive-it.org", "localhost", "127.0.0.1",
		"127.1", "2130706433", "nodot", "bücher.example", "[::1]"},
	port:  []string{"", ":80", ":8080"},
	path:  []string{"", "/", "/a/b", "/x%2Fy", "/secret/z", "/a/50%25off"}, // the last: an encoded percent sign (decodes to a stray "%")
	query: []string{"", "?a=1", "?u=secret", "?u=secret&d=100%"},           // the last: a bare percent sign (URLs keep it)
	wrap:  []string{"%s", `"%s"`, `'%s'`},
}

// thorough adds two more full products to the quick one (on the seed / redirect / asset positions):
// hostFocus: every host and scheme spelling that a URL parser may or may not fold onto a forbidden host
// or scheme, against a small path/query alphabet; textFocus: every path/query/wrapper spelling against a
// small host alphabet.
var hostFocus = alphabet{
	scheme: append(append([]string{}, quickAlpha.scheme...), "hTTps://", "http:/", "http:", `http:\\`),
	user:   append(append([]string{}, quickAlpha.user...), "u:secret@"),
	host: append(append([]string{}, quickAlpha.host...), "localhost.", "LOCALHOST", "local%68ost", "ｌｏｃａｌｈｏｓｔ", "0x7f.0.0.1",
		"127.0.0.1.", "127。0。0。1", "127.0.0.2", "[::ffff:127.0.0.1]", "0", "OUT.EXAMPLE", "out.example.", "sub.out.example",
		"out%2Eexample", "in.example.out.example", "xn--bcher-kva.example", "archive.org."),
	port:  quickAlpha.port,
	path:  []string{"", "/a/b", "/secret/z", "/i.png"},
	query: []string{"", "?u=secret"},
	wrap:  []string{"%s", `"%s"`, " %s"},
}

var textFocus = alphabet{
	scheme: []string{"http://", "https://", "", "//", "http:"},
	user:   hostFocus.user,
	host:   []string{"in.example", "out.example", "bücher.example", "web.archive.org"},
	port:   []string{"", ":8080"},
	path:   append(append([]string{}, quickAlpha.path...), "/i.png", "/sec%72et/z", "/a/../secret/z", "/A/b", "/a%2Fb"),
	query:  append(append([]string{}, quickAlpha.query...), "?u=s%65cret", "#secret", "?a=1&u=secret"),
	wrap:   append(append([]string{}, quickAlpha.wrap...), " %s", `'"%s"'`, "%s "),
}

// opaqueFocus: URIs of other schemes in their opaque form (no "//" after the colon), whose opaque part may start
// with a digit, hold an "@" and a dotted host - everything a lenient "host:port/path" reading could mistake for an
// http URL; both tiers, every position.
var opaqueFocus = alphabet{
	scheme: []string{"sip:", "mailto:", "xmpp:", "tel:", "urn:", "javascript:", "data:", "http://", ""},
	user:   []string{"", "u@", "1000@", "42:x@", "+33@"},
	host:   []string{"in.example", "out.example", "localhost", "nodot", "8.example"},
	port:   []string{"", ":8080"},
	path:   []string{"", "/a/b", "/i.png"},
	query:  []string{"", "?subject=hello"},
	wrap:   []string{"%s", `"%s"`},
}

func alphabets(tier string, pos Position) []alphabet {
	if tier == "thorough" && len(pos.Edges) <= 1 && pos.Sib == 0 {
		return []alphabet{quickAlpha, opaqueFocus, hostFocus, textFocus}
	}
	return []alphabet{quickAlpha, opaqueFocus} // quick, and the deep and sibling positions of thorough
}

// foreignSchemes: scheme names that are not http(s); a text that starts with one of them and a colon names a URI of
// that scheme whatever follows (RFC 3986), for a browser as for the property.
var foreignSchemes = map[string]bool{"ftp": true, "javascript": true, "data": true, "mailto": true, "sip": true, "xmpp": true, "tel": true, "urn": true}

// foreignScheme returns the scheme a URL text names when it is one of foreignSchemes, else "".
func foreignScheme(text string) string {
	t := strings.Trim(text, " \"'")
	i := strings.IndexByte(t, ':')
	if i <= 0 {
		return ""
	}
	if s := strings.ToLower(t[:i]); foreignSchemes[s] {
		return s
	}
	return ""
}

// relative forms (those of C09 plus scope-relevant targets), resolved against relParents.
var relForms = []string{
	"/a/b", "/secret/z", "/x/y?u=secret", "b/c", "secret/z", "./b", "../b", "../../secret/z", "../../a/b", "b/../../../secret/z",
	"..", ".", "?a=1", "?u=secret", "#frag", "", ";x", "a b",
	"//out.example/a/b", "//in.example/a/b", "//web.archive.org/web/x", "//localhost/a/b", "//127.0.0.1/a/b", "//nodot/a/b",
	"//u@out.example/x", "///out.example/a/b", "////out.example/x", `/\out.example/a/b`, `\\out.example\a\b`, `\/out.example/x`,
	"http:b/c", "http:/secret/z", "https:b", "http:///out.example/x", ":80/x", "/%2e%2e/secret/z", "/x/%2E%2E/secret/z",
	"/a/b#secret", "%2F%2Fout.example/x", "/x\t/y", "ftp://in.example/a/b", "javascript:void(0)", "data:text/plain,secret",
	"mailto:u@in.example",
	// a few absolute texts whose path, not host, carries a dot
	"http://nodot/i.png", "//nodot/i.png", "nodot/i.png", "http://localhost/i.png", "http://127.0.0.1:8080/i.png",
}

func wrapText(w, s string) string { return strings.Replace(w, "%s", s, 1) }

// forEachText enumerates every URL text of the tier for one position, in a fixed order (simplest first).
func forEachText(tier string, pos Position, fn func(parent, text string, tok Tok)) (absolute, relative int) {
	parent := ""
	if pos.Edges != "" {
		parent = pageURL
	}
	for _, al := range alphabets(tier, pos) {
		for _, w := range al.wrap {
			for _, sc := range al.scheme {
				for _, us := range al.user {
					for _, h := range al.host {
						for _, po := range al.port {
							for _, pa := range al.path {
								for _, q := range al.query {
									fn(parent, wrapText(w, sc+us+h+po+pa+q), Tok{Scheme: sc, Host: h, PQ: pa + q})
									absolute++
								}
							}
						}
					}
				}
			}
		}
	}
	parents := relParents
	if pos.Edges == "" {
		parents = []string{""}
	}
	for _, p := range parents {
		for _, w := range textFocus.wrap {
			for _, r := range relForms {
				fn(p, wrapText(w, r), Tok{Scheme: "rel", Host: "rel:" + r, PQ: "rel:" + r})
				relative++
			}
		}
	}
	return
}
