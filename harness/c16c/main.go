// Harness for C16, part C: the per-host limiter table under concurrent workers. Part A runs whole seeds
// through the pipeline on the canonical schedule; the clause "the per-host limiter table stays within its
// configured bound" also quantifies over what the workers do to the table at the same moment - a request
// waiting out a penalty while another worker's host pushes its bucket out of the table. Two workers on the
// real BucketManager (bound 2 hosts) under the controlled scheduler and its virtual clock: worker 1 meets a
// rate-limiting host and comes back to it, worker 2 runs every program of three fetches over three hosts.
package main

import (
	"context"
	"encoding/json"
	"fmt"
	"os"
	"strings"
	"sync"
	"time"

	"github.com/internetarchive/Zeno/internal/pkg/archiver/ratelimiter"
	"github.com/internetarchive/Zeno/internal/verif/vrt/hkit"
	"github.com/internetarchive/Zeno/internal/verif/vrt/vsched"
)

const propID = "C16"

const bound = 2

var hosts = []string{"a.example", "b.example", "c.example"}

// a fetch = Wait(host), then the answer is reported: 'k' = 200 (OnSuccess), 'f' = 429, 's' = 503 (AdjustOnFailure)
type fetch struct {
	Host   int  `json:"host"`
	Answer byte `json:"answer"`
}

type scen struct {
	W1 []fetch `json:"worker1"`
	W2 []fetch `json:"worker2"`
	P  int     `json:"p"`
}

func prog(p []fetch) string {
	var s []string
	for _, f := range p {
		s = append(s, fmt.Sprintf("%c%c", 'a'+f.Host, f.Answer))
	}
	return strings.Join(s, ",")
}

func (s *scen) name() string { return fmt.Sprintf("table: w1=%s w2=%s", prog(s.W1), prog(s.W2)) }

func scenarios(tier string) []scen {
	answers := []byte{'k', 'f'}
	if tier == "thorough" {
		answers = []byte{'k', 'f', 's'}
	}
	kindsOf := func(answers []byte) (k []fetch) {
		for h := range hosts {
			for _, a := range answers {
				k = append(k, fetch{h, a})
			}
		}
		return
	}
	var out []scen
	// worker 1: a host answers 429, the worker comes back to it (the retry, or the next asset). The hosts are
	// interchangeable (nothing in the limiter looks at the name), so worker 1's host is fixed
	w1 := []fetch{{0, 'f'}, {0, 'k'}}
	kinds := kindsOf(answers)
	for _, x := range kinds {
		for _, y := range kinds {
			for _, z := range kinds {
				out = append(out, scen{W1: w1, W2: []fetch{x, y, z}, P: 1})
			}
		}
	}
	if tier == "thorough" { // two preemptions on the shorter programs (three fetches at P=2 run for hours)
		k2 := kindsOf([]byte{'k', 'f'})
		for _, x := range k2 {
			for _, y := range k2 {
				out = append(out, scen{W1: w1, W2: []fetch{x, y}, P: 2})
			}
		}
	}
	return out
}

func scenario(s *scen) *vsched.Scenario {
	var bm *ratelimiter.BucketManager
	maxSeen := 0
	sc := &vsched.Scenario{Name: s.name()}
	sc.Setup = func(x *vsched.Exec) { bm, maxSeen = nil, 0 }
	sc.Body = func() {
		bm = ratelimiter.NewBucketManager(context.Background(), bound, 1, 1, 5*time.Minute)
		var wg sync.WaitGroup
		for _, p := range [][]fetch{s.W1, s.W2} {
			p := p
			wg.Add(1)
			go func() {
				defer wg.Done()
				for _, f := range p {
					h := hosts[f.Host]
					bm.Wait(h)
					switch f.Answer {
					case 'k':
						bm.OnSuccess(h)
					case 'f':
						bm.AdjustOnFailure(h, 429)
					case 's':
						bm.AdjustOnFailure(h, 503)
					}
				}
			}()
		}
		wg.Wait()
		bm.Close()
	}
	sc.AtStep = func(x *vsched.Exec) error {
		if bm != nil {
			n := bm.VerifHosts()
			if n > maxSeen {
				maxSeen = n
			}
			if n > bound {
				return fmt.Errorf("limiter-table-over-bound: %d hosts in the table, bound %d", n, bound)
			}
		}
		return nil
	}
	sc.Outcome = func(x *vsched.Exec) string { return fmt.Sprintf("max=%d end=%d", maxSeen, bm.VerifHosts()) }
	sc.Horizon = 3 * time.Minute
	sc.Signature = func(v *vsched.Violation) string {
		if v.Kind == "crash" {
			return vsched.DefaultSignature(v)
		}
		if i := strings.IndexByte(v.Message, ':'); i > 0 {
			return "table:" + v.Message[:i]
		}
		return vsched.DefaultSignature(v)
	}
	sc.KnownSig = func(sg string) bool { return hkit.IsListed(propID, sg) }
	return sc
}

type jobResult struct {
	Rep *vsched.Report `json:"rep"`
}

func main() {
	a := hkit.ParseArgs()
	ss := scenarios(a.Tier)
	if a.Replay != "" {
		replay(a.Replay)
		return
	}
	const chunk = 2 // scenarios per job
	nj := (len(ss) + chunk - 1) / chunk
	res := hkit.Jobs(a, nj, func(j int) any {
		total := &vsched.Report{Exhaustive: true, Outcomes: map[string]int{}}
		for k := j * chunk; k < (j+1)*chunk && k < len(ss); k++ {
			rep := vsched.Explore(scenario(&ss[k]), vsched.Bounds{P: ss[k].P, MaxWall: 5 * time.Minute})
			if len(rep.Sample) > 30 {
				rep.Sample = rep.Sample[:30]
			}
			for i := range rep.Violations {
				rep.Violations[i].Scenario = fmt.Sprint(k) // index, for the confirmation below
			}
			total.Merge(rep)
		}
		return jobResult{total}
	})
	total := &vsched.Report{Exhaustive: true}
	seen := map[string]bool{}
	outcomes := map[string]bool{}
	for _, b := range res {
		var r jobResult
		if err := json.Unmarshal(b, &r); err != nil {
			hkit.EngineError("%v", err)
		}
		for o := range r.Rep.Outcomes {
			outcomes[o] = true
		}
		for _, v := range r.Rep.Violations {
			if seen[v.Sig] {
				continue
			}
			seen[v.Sig] = true
			var k int
			fmt.Sscan(v.Scenario, &k)
			v.Scenario = ss[k].name()
			if err := vsched.Confirm(scenario(&ss[k]), &v); err != nil {
				hkit.EngineError("violation did not replay: %v", err)
			}
			hkit.Report(propID, v.Sig, map[string]any{"engine": "explore", "harness": "c16c", "scenario": ss[k], "violation": v},
				fmt.Sprintf("%s: %s: %s", ss[k].name(), v.Kind, firstLine(v.Message)))
		}
		r.Rep.Violations, r.Rep.Outcomes = nil, nil
		total.Merge(r.Rep)
	}
	hkit.Evidence(propID, a.Tier, "model_checking", map[string]any{
		"states": total.States, "transitions": total.Transitions, "traces_validated_against_impl": total.Executions,
		"samples": []any{total.Sample}, "exhaustive": total.Exhaustive, "scenarios": len(ss), "distinct_outcomes": len(outcomes),
		"explanation": "part C: the real BucketManager bounded to 2 hosts with two workers under the controlled scheduler and virtual clock: worker 1 fetches a host that answers 429 and comes back to it (it waits out the penalty), worker 2 runs every program of three fetches over three hosts x answers {200, 429; thorough also 503}; every interleaving with at most 1 preemption (thorough: also every program of two fetches with at most 2); at every step the table holds at most 2 hosts",
	}, []string{"part C: a fetch is Wait(host) followed by the report of its answer, as the archiver does; the clean-up loop runs (5 min period) but the runs end before it fires"}, hkit.Violations())
	fmt.Printf("C16 %s (part C): %d scenarios, %d executions, %d states, %d transitions, %d distinct outcomes, exhaustive=%v\n", a.Tier, len(ss), total.Executions, total.States, total.Transitions, len(outcomes), total.Exhaustive)
	hkit.Exit()
}

func firstLine(s string) string {
	if i := strings.IndexByte(s, '\n'); i > 0 {
		s = s[:i]
	}
	if len(s) > 600 {
		s = s[:600]
	}
	return s
}

func replay(path string) {
	b, err := os.ReadFile(path)
	if err != nil {
		hkit.EngineError("%v", err)
	}
	var r struct {
		Scenario  scen             `json:"scenario"`
		Violation vsched.Violation `json:"violation"`
	}
	if err := json.Unmarshal(b, &r); err != nil {
		hkit.EngineError("%v", err)
	}
	v, x := vsched.Replay(scenario(&r.Scenario), r.Violation.Choices)
	for _, s := range x.Steps {
		fmt.Printf("  %-40s %-90s case=%d\n", s.Thread, s.Point, s.Case)
	}
	if v == nil {
		fmt.Println("replay: no violation")
		os.Exit(0)
	}
	fmt.Printf("replay: %s: %s\n", v.Kind, v.Message)
	fmt.Printf("VIOLATION property=%s replay=%s\n", propID, path)
	os.Exit(1)
}
